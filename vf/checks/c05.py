"""C05  Workflow results do not depend on the interleaving.

The same failure-free programs as C04 (vf.harness.c04_wfgen, class "plain": every step reaches a
workflow output) are executed by the real `StreamFlowExecutor` under the default asyncio order and
under >= 2 perturbation seeds (database completion jitter, seeded `asyncio.wait` result order,
seeded job/transformer durations).  Oracle, per program:

  * metamorphic: the `(tag -> value)` map read from `token_list` of every workflow output port is
    identical in every schedule, no tag occurs twice on a port;
  * denotational: that map equals the interpreter-independent denotation of the program (a
    wrong-but-stable result is caught too);
  * `executor.run()`'s dictionary (last value per port) equals the denotation on single-token ports
    and is one of the port's values otherwise.

Schedules are quantified, so a program only counts as non-trivial when its runs produced >= 2
distinct traces (sequence of (port|step, event, tag) from wrappers on Port.put / Step.terminate);
the histogram of distinct interleavings per program is reported.
"""
from __future__ import annotations

import collections
import os
import time

from vf.common import Shard, short_tb

PROPERTY = "C05"
META = {
    "text": "For generated workflows the (tag -> value) maps on every workflow output port are identical under every "
            "perturbed schedule / job-completion order explored and equal to an interpreter-independent denotation.",
    "note": "Schedules are perturbed only at legal reschedule points (vf.perturb). Equality with the denotation is an "
            "additional oracle (catches stable wrong results).",
    "technique": "runtime monitoring: metamorphic comparison across perturbed schedules + denotational oracle",
}

MECH_LOOP = "C05/loop-cut-by-skipped-termination"


def plan(tier):
    q = tier == "quick"
    return {
        "level": "exploration",
        "shards": 16,
        "budget_s": 45 if q else 800,
        "timeout_s": 600 if q else 3000,
        "min_nontrivial": 30 if q else 600,
        "required_counters": ["oracle_across_schedules", "oracle_denotation", "oracle_run_dict"],
        "rule": "random failure-free programs in which every step reaches an output (same generator as C04), each run under "
                "the default order + 2 (quick) / 7 (thorough) perturbation seeds; one case = one program; non-trivial only "
                "when >= 2 distinct trace hashes were observed for it; distinct = distinct program hash.",
        "exhaustive": False,
        "assumptions": ["perturbation covers interleavings reachable through external completion order, asyncio.wait result "
                        "order and job durations; the ready queue is never reordered"],
    }


def descendants(prog, stream):
    from vf.harness.c04_wfgen import op_inputs, op_outputs

    d = {stream}
    for op in prog["ops"]:
        if any(x in d for x in op_inputs(op)):
            d.update(op_outputs(op))
    return d


def loop_cut_streams(prog, obs, iters):
    """Explicit predicate of the listed defect: streams that may legitimately differ from the denotation
    because a loop L (a) received a SKIPPED termination on its input (its input forwarder ended SKIPPED in
    this run) and (b) has an instance with >= 1 iteration, so LoopCombinatorStep cut it short; only L's
    output and what is computed from it are attributed to the defect."""
    out = set()
    for op in prog["ops"]:
        if op["k"] != "loop":
            continue
        st = obs["steps"].get("/" + op["o"] + "/a-input-forward-transformer", {}).get("status")
        if st == "SKIPPED" and any(n >= 1 for n in iters[op["o"]].values()):
            out |= descendants(prog, op["o"])
    return out


def check_program(sh: Shard, prog, seeds):
    from vf.harness import c04_wfgen as G

    streams, _, _, iters = G.denote(prog)
    exp = {s: streams[s] for s in prog["outs"]}
    wd = os.path.join(sh.scratch, "wd")
    runs = []
    for seed in seeds:
        if len(runs) >= 2 and sh.out_of_budget():
            break
        try:
            obs = G.run_program(prog, seed, wd, wall=sh.pick(60.0, 300.0))
        except Exception as e:
            sh.inconclusive_because(f"harness error on program {G.program_key(prog)} seed {seed}: {short_tb(e)}")
            continue
        if obs["outcome"] == "walltimeout":
            sh.inconclusive_because(f"wall-clock watchdog on program {G.program_key(prog)} seed {seed}")
            continue
        if obs["outcome"] == "deadlock":
            sh.count("runs_deadlocked_not_judged")  # C04's verdict, not an output comparison
            continue
        if not obs.get("settled", True):
            sh.count("runs_not_settled_not_judged")
            continue
        if obs["outcome"] == "raised":
            sh.count("runs_raised_outputs_still_compared")
        runs.append((seed, obs))
    if not runs:
        return None
    hashes = {o["trace_hash"] for _, o in runs}
    key = G.program_key(prog)
    w = {"prog": prog, "seeds": [s for s, _ in runs]}
    # 1. no duplicated tag on an output port
    for seed, o in runs:
        d = {s: t for s, t in o["output_dups"].items() if t}
        if d:
            sh.violation(None, f"output port(s) hold several tokens with the same tag: {d} (seed {seed})", w)
    # 2. across schedules
    sh.count("oracle_across_schedules", len(runs) - 1 if len(runs) > 1 else 0)
    base_seed, base = runs[0]
    for seed, o in runs[1:]:
        if o["outputs"] != base["outputs"]:
            diff = {s: (base["outputs"][s], o["outputs"][s]) for s in prog["outs"] if base["outputs"][s] != o["outputs"][s]}
            s0 = next(iter(diff))
            sh.violation(None, f"output maps differ between schedules {base_seed} and {seed} on port {s0}: "
                               f"{str(diff[s0][0])[:300]} vs {str(diff[s0][1])[:300]}", w)
            break
    # 3. against the denotation
    for seed, o in runs:
        sh.count("oracle_denotation")
        if o["outputs"] != exp:
            bad = [s for s in prog["outs"] if o["outputs"][s] != exp[s]]
            allowed = loop_cut_streams(prog, o, iters)
            mech = MECH_LOOP if bad and all(s in allowed for s in bad) else None
            s0 = bad[0]
            sh.violation(mech, f"output map of port {s0} differs from the denotation (seed {seed}): got {str(o['outputs'][s0])[:300]} "
                               f"expected {str(exp[s0])[:300]}", w)
            break
    # 4. executor.run() dictionary
    for seed, o in runs:
        if o["outcome"] != "returned":
            continue
        sh.count("oracle_run_dict")
        res = o.get("result") or {}
        for s in prog["outs"]:
            if o["outputs"][s] != exp[s]:
                continue  # already reported above
            vals = list(exp[s].values())
            if not vals:
                if s in res:
                    sh.violation(None, f"run() reports a value for port {s} that received no token: {str(res[s])[:200]} (seed {seed})", w)
            elif s not in res:
                sh.violation(None, f"run() result lacks port {s} which received {len(vals)} token(s) (seed {seed})", w)
            elif len(vals) == 1 and res[s] != vals[0]:
                sh.violation(None, f"run() result for port {s} is {str(res[s])[:200]}, denotation {str(vals[0])[:200]} (seed {seed})", w)
            elif res[s] not in vals:
                sh.violation(None, f"run() result for port {s} is {str(res[s])[:200]}, not a value of that port (seed {seed})", w)
    sh.case(key, nontrivial=len(hashes) >= 2)
    return {"hashes": len(hashes), "runs": len(runs), "steps": len(runs[0][1]["steps"]),
            "tokens_on_outputs": sum(len(v) for v in exp.values()), "trace_events": runs[0][1]["trace_len"]}


def run_shard(sh: Shard) -> None:
    from vf.harness import c04_wfgen as G

    G.warm_up()
    sh.t0 = time.time()  # soft budget counts from after the engine import (minutes on a loaded machine)
    rng = sh.rng("programs", sh.shard)
    nsched = sh.pick(3, 8)
    hist = collections.Counter()
    ops = collections.Counter()
    nprog = 0
    multi = 0
    crafted = [dict(p, crafted=n) for n, p in sorted(G.CRAFTED.items()) if p["cls"] == "plain"] if sh.shard == 0 else []
    # under heavy machine load the imports alone can eat the soft budget: always run a minimum of programs
    while not sh.out_of_budget() or nprog < sh.pick(5, 12):
        prog = crafted.pop() if crafted else G.gen_program(rng, cls="plain", max_ops=sh.pick(10, 22),
                                                            max_depth=sh.pick(4, 5), max_tags=sh.pick(48, 120))
        if "crafted" in prog:
            sh.count("crafted_programs")
        seeds = [None] + [rng.randrange(1, 10**6) for _ in range(nsched - 1)]
        r = check_program(sh, prog, seeds)
        if r is None:
            continue
        nprog += 1
        for k, v in G.op_histogram(prog).items():
            ops[k] += v
        hist[r["hashes"]] += 1
        if r["tokens_on_outputs"] > len(prog["outs"]):
            multi += 1
        if nprog <= 2 and sh.shard < 2:
            sh.sample({"ops": G.op_histogram(prog), "outs": prog["outs"], "schedules": r["runs"],
                       "distinct_interleavings": r["hashes"], "steps": r["steps"], "trace_events": r["trace_events"],
                       "output_tokens": r["tokens_on_outputs"]})
    sh.count("programs", nprog)
    sh.count("programs_with_multi_token_output_port", multi)
    sh.note("op_kinds", dict(ops))
    sh.note("distinct_interleavings_per_program_hist", {str(k): v for k, v in sorted(hist.items())})


def replay(sh: Shard, w: dict) -> None:
    check_program(sh, w["prog"], w["seeds"])
