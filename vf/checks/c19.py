"""C19  Concurrent recoveries share work and never deadlock.

Workload: scatter shapes (2..8 elements, optionally a two-step body) and diamonds in which 2..6
sibling jobs fail *simultaneously* (a harness barrier releases their fail-stop faults together, each
deleting the whole volatile work directory) so that all of them need the same lost ancestor; many
perturbation seeds per program (database jitter between the critical sections of `_recover`,
seeded job durations).

Oracle (per run)
 L1  no quiescent deadlock (vf.perturb.run_quiescent); wall-clock watchdog => inconclusive;
 L2  when executor.run() has returned, every recover() call and every recovery executor has returned;
 L3  the run completed with the right output (every waiting recovery received its tokens);
 S1  each producer is re-executed at most once per loss of its data (+ its own failures), where a
     loss of P's data is a logged deletion that removed files P had written.
An excess re-execution is classified `C19/stale-lineage-rollback` only if the recovery that ran it
took its synchronisation decision (`_synchronize_workflows`) after an earlier re-execution of the
same producer for the same loss had already completed; an excess re-execution decided while the
producer was still being re-executed (work not shared) stays unclassified.
"""
from __future__ import annotations

import os

from vf.common import Shard, digest

PROPERTY = "C19"
META = {
    "text": "With 2..6 sibling jobs failing simultaneously (fail-stop, shared lost ancestor) under many perturbation "
            "seeds, no run deadlocked, every recover() call and recovery executor returned, outputs were right, and "
            "producers ran at most once per logged loss apart from the listed stale-lineage finding.",
    "note": "Loss = deletion that removed files the producer had written. Decision time of a recovery = its "
            "_synchronize_workflows call.",
    "technique": "fault enumeration with a release barrier + schedule perturbation + counters vs loss record + quiescence",
}
LIMIT = 40


def plan(tier):
    q = tier == "quick"
    return {
        "level": "fault_enumeration",
        "shards": 16,
        "budget_s": 50 if q else 700,
        "timeout_s": 420 if q else 2400,
        "min_nontrivial": 30 if q else 500,
        "required_counters": ["oracle_no_deadlock", "oracle_recoveries_returned", "oracle_once_per_loss",
                              "barrier_released", "concurrent_recoveries"],
        "rule": "case = (program, set of simultaneously failing siblings, perturbation seed); programs: scatter n=2..8 with "
                "m=2..min(n,6) failing elements (one- and two-step bodies, with/without a common producer), diamonds with "
                "both branches failing, diamond of scatters; 8 (quick) / 64 (thorough) seeds each. Non-trivial = the "
                "barrier released >= 2 faults and >= 2 recoveries overlapped; distinct = distinct (program, faults, seed); "
                "distinct event-order hashes per program are reported as interleavings.",
        "exhaustive": False,
        "assumptions": ["faults of one run are released together at the first execution of each failing job"],
    }


def programs(sh: Shard):
    from vf.harness import c16_cases as C

    out = []

    def add(sp, jobs, phase="execute", kind="all"):
        out.append({"prog": sp, "faults": [{"job": j, "phase": phase, "kind": kind, "count": 1, "barrier": 0} for j in jobs]})

    for n in (2, 3, 4, 5, 6, 8):
        for m in range(2, min(n, 6) + 1):
            if sh.quick() and n in (5, 8) and m not in (2, min(n, 6)):
                continue
            add(C.scatter(n), [f"/b/0.{i}" for i in range(m)])
            if n in (3, 6):
                # last elements fail instead of the first ones
                add(C.scatter(n), [f"/b/0.{n - 1 - i}" for i in range(m)])
    for n, m in ((3, 2), (4, 3), (6, 4)):
        add(C.scatter(n, body=2), [f"/b1/0.{i}" for i in range(m)])
        add(C.scatter(n, pre=False), [f"/b/0.{i}" for i in range(m)])
    add(C.diamond(1, 1), ["/l0/0", "/r0/0"])
    add(C.diamond(1, 2), ["/l0/0", "/r1/0"])
    add(C.diamond(2, 2, pre=False), ["/l1/0", "/r1/0"])
    add(C.combo_diamond_scatter(2), ["/bl/0.0", "/br/0.0"])
    add(C.combo_diamond_scatter(3), ["/bl/0.0", "/bl/0.1", "/br/0.2"])
    add(C.combo_scatter_diamond(2), ["/l0/0.0", "/r0/0.1"])
    # two shared lost ancestors (a, a2): every recovery needs both request locks
    add(C.combo_pipe_scatter_pipe(3), ["/b/0.0", "/b/0.1"])
    add(C.combo_pipe_scatter_pipe(4), ["/b/0.0", "/b/0.1", "/b2/0.2"])
    if not sh.quick():
        add(C.combo_pipe_scatter_pipe(6), [f"/b/0.{i}" for i in range(5)])
    # fail-stop/own faults released together: nothing shared is lost, recoveries still overlap
    add(C.scatter(4), [f"/b/0.{i}" for i in range(3)], kind="own")
    add(C.scatter(4), [f"/b/0.{i}" for i in range(3)], kind="soft")
    return out


def gen_cases(sh: Shard):
    rng = sh.rng("cases")
    progs = programs(sh)
    seeds = sh.pick(8, 64)
    cases = []
    for k in range(seeds):
        for p in progs:
            cases.append({"prog": p["prog"], "faults": p["faults"], "seed": rng.randrange(1 << 30), "K": rng.choice((1, 3, 6))})
    # seed-major order: every program gets its k-th seed before any gets its (k+1)-th
    return cases


_ORDERS: dict = {}


def run_case(sh: Shard, case: dict) -> None:
    from vf.harness import c16_cases as C
    from vf.harness import c16_recovery as R

    prog, faults, seed = case["prog"], case["faults"], case["seed"]
    res = R.run_sync(prog, faults, os.path.join(sh.scratch, "case"), seed=seed, max_retries=LIMIT, K=case.get("K", 3),
                     max_yield=4, wall_timeout=sh.pick(90, 300))
    key = (prog["shape"], C.fault_key(faults), seed)
    released = all(b[0] for b in res.barrier_open.values()) if res.barrier_open else False
    calls = [c for v in res.recover_calls.values() for c in v]
    calls = calls[:200]
    overlap = sum(1 for a in calls for b in calls if a is not b and a["start"] < b["start"] < (a["end"] or 1 << 60))
    sh.case(key, nontrivial=released and overlap > 0)
    if released:
        sh.count("barrier_released")
    if overlap:
        sh.count("concurrent_recoveries", min(overlap, 100))
    pk = digest((prog["shape"], C.fault_key(faults)))
    _ORDERS.setdefault(pk, set()).add(digest([(e["ev"], e.get("job"), e.get("wf")) for e in res.events]))
    if len(sh.samples) < 2 and sh.shard in (6, 7) and overlap:
        sh.sample({"shape": prog["shape"], "failing_together": [f["job"] for f in faults], "kind": faults[0]["kind"], "seed": seed,
                   "status": res.status, "exec_counts": res.exec_counts(),
                   "recover_calls": {j: [(c["start"], c["end"], c["outcome"]) for c in v] for j, v in res.recover_calls.items()},
                   "losses": [(l["t"], l["by"], l["producers"]) for l in res.losses]})

    def witness(**extra):
        return C.compact(res, prog, faults, seed, dict(extra, K=case.get("K", 3), kind="c19"))

    if res.status == "walltimeout":
        sh.inconclusive_because(f"wall-clock watchdog on {key}")
        return
    if not released:
        sh.count("barrier_not_released")
        if res.status == "deadlock":
            sh.inconclusive_because(f"a failing job never reached the harness barrier in {key}: {res.barrier_open}")
            return
    sh.count("oracle_no_deadlock")
    if res.status == "deadlock":
        mech = "C19/concurrent-recovery-hang" if C.is_concurrent_recovery_hang(res) else None
        sh.violation(mech, f"concurrent recoveries deadlock (event loop quiescent): open recover() calls {res.open_recover}; "
                           f"starved {C.starved_recovery_steps(res)[:4]} [shape {prog['shape']} failing together "
                           f"{[f['job'] for f in faults]}]", witness(hung=res.hung))
        return
    sh.count("oracle_recoveries_returned")
    open_calls = {j: sum(1 for c in v if c["end"] is None) for j, v in res.recover_calls.items()}
    open_calls = {j: n for j, n in open_calls.items() if n}
    open_exec = [e["wf"] for e in res.executors if e["end"] is None]
    if open_calls or open_exec:
        sh.violation(None, f"executor.run() returned ({res.status}) while recover() calls {open_calls} / recovery executors "
                           f"{open_exec} never returned [shape {prog['shape']}]", witness())
    if res.status != "ok" or res.outputs != [R.denote(prog)]:
        if C.is_scatter_join_mispaired(prog, res):
            mech = "C19/scatter-join-mispaired-after-recovery"
        elif C.is_concurrent_recovery_drops_job(prog, res):
            mech = "C19/concurrent-recovery-drops-job"
        elif C.is_runaway_nested_recovery(res, LIMIT):
            mech = "C19/runaway-nested-recovery"
        else:
            mech = None
        sh.violation(mech, f"a failed job did not get its regenerated inputs: status {res.status} {res.exc_msg or ''} outputs "
                           f"{str(res.outputs)[:200]} expected {str(R.denote(prog))[:200]} [shape {prog['shape']} failing together "
                           f"{[f['job'] for f in faults]}]", witness())
        return
    sh.count("oracle_once_per_loss")
    for x in C.excess_reexecutions(res):
        sh.count("producers_with_excess_reexecution")
        stale_all = all(x["stale"]) and len(x["stale"]) > 0
        what = (f"producer {x['job']} executed {x['n_exec']} times for {x['losses']} loss(es) of its data and "
                f"{x['own_failures']} own failure(s); excess re-executions at {[(e['start'], e['end'], 'wf%s' % e.get('wfkey')) for e in x['excess']]}, "
                f"decided after an earlier re-execution had completed: {x['stale']} [shape {prog['shape']} failing together "
                f"{[f['job'] for f in faults]}]")
        sh.violation("C19/stale-lineage-rollback" if stale_all else None, what, witness(excess=x))


def run_shard(sh: Shard) -> None:
    import time

    import vf.harness.c16_recovery  # noqa: F401

    t_start = time.time()
    cases = gen_cases(sh)
    done = 0
    for i, case in enumerate(cases):
        if not sh.mine(i):
            continue
        if (time.time() - t_start > sh.plan["budget_s"]) or sh.time_left() < -150:
            break
        run_case(sh, case)
        done += 1
    sh.note(f"shard{sh.shard}", {"planned": sum(1 for i in range(len(cases)) if sh.mine(i)), "done": done,
                                   "distinct_event_orders_per_program": sorted(len(v) for v in _ORDERS.values())})


def replay(sh: Shard, w: dict) -> None:
    run_case(sh, {"prog": w["prog"], "faults": w["faults"], "seed": w["seed"], "K": w.get("K", 3)})
