"""C07  Recorded provenance is complete and acyclic.

Failure-free programs of vf.harness.c04_wfgen (classes "plain" and "side") are executed by the real
executor under perturbed schedules with the real SqliteDatabase (jittered).  After the run reached
quiescence the whole `token`, `provenance` and `port` tables are read by raw SQL through the engine's
own connection (StreamFlow never commits before close, a second connection would see nothing) and
compared with the monitor's own record:

  * every data token a step put on a port has a persistent id, a row, the row of the right port/tag;
  * its dependee set in `provenance` equals the set expected from what the step *consumed*
    (Port.get wrapper) by the per-family rules of vf.models.c07_provenance (tag group for
    transformers / conditionals / execute + job token, tag group + the tokens of ALL connector ports
    (one per alternative target of the binding) for schedule, list token for scatter, size token
    + all elements for gather, the combined tokens for dot / cartesian / residual / loop combinators,
    the iterations of the prefix for the loop output step, nothing for deploy);
  * every provenance row refers to existing tokens, dependee id < depender id, the relation is acyclic
    (Kahn's algorithm over all rows).

Control tokens (TerminationToken, IterationTerminationToken) are outside the statement and ignored.
"""
from __future__ import annotations

import collections
import os
import time

from vf.common import Shard, short_tb

PROPERTY = "C07"
META = {
    "text": "After generated workflow runs, every token emitted by a step is persisted on the right port and linked in the "
            "provenance table to exactly the persisted tokens the step consumed to compute it; provenance rows refer to "
            "existing tokens, dependees precede dependers and the relation is acyclic.",
    "note": "Tables are read through the engine's own sqlite connection. Expected dependees are derived from the monitor's "
            "record of Port.get/Port.put, never from the ids the step passed to _persist_token. Recovery runs are not "
            "covered here (failure-free programs only).",
    "technique": "runtime monitoring: offline history checker over raw SQL tables vs monitor record + Kahn's algorithm",
}


def plan(tier):
    q = tier == "quick"
    return {
        "level": "exploration",
        "shards": 16,
        "budget_s": 45 if q else 800,
        "timeout_s": 600 if q else 3000,
        "min_nontrivial": 60 if q else 1000,
        "required_counters": ["dependee_sets_compared", "kahn_runs", "provenance_rows", "family_fn", "family_scatter",
                              "family_gather", "family_execute", "family_schedule", "family_dot", "family_cond",
                              "schedule_multi_target_tokens"],
        "rule": "random failure-free programs (classes plain and side of the C04 generator), default order + 1 (quick) / 3 "
                "(thorough) perturbation seeds; one case = (program, seed); non-trivial when >= 5 dependee sets were "
                "compared in the run; distinct = distinct (program hash, seed).",
        "exhaustive": False,
        "assumptions": ["only failure-free executions (no recovery workflows)",
                        "forced gathers (announced size never received or never matched) are outside the stated domain and only counted"],
    }


def run_case(sh: Shard, prog, seed):
    from vf.harness import c04_wfgen as G
    from vf.models.c07_provenance import Judge

    wd = os.path.join(sh.scratch, "wd")
    try:
        obs = G.run_program(prog, seed, wd, wall=sh.pick(60.0, 300.0), want_db=True, keep_objects=True)
    except Exception as e:
        sh.inconclusive_because(f"harness error on program {G.program_key(prog)} seed {seed}: {short_tb(e)}")
        return None
    if obs["outcome"] == "walltimeout":
        sh.inconclusive_because(f"wall-clock watchdog on program {G.program_key(prog)} seed {seed}")
        return None
    if not obs.get("settled", True):
        sh.count("runs_not_settled_not_judged")
        return None
    if obs["outcome"] == "deadlock" or "tables" not in obs:
        sh.count("runs_not_judged_" + str(obs["outcome"]))
        return None
    if obs["outcome"] == "raised":
        sh.count("runs_raised_still_judged")
    j = Judge(obs)
    try:
        refutations = j.run()
    except Exception as e:
        sh.inconclusive_because(f"oracle error on program {G.program_key(prog)} seed {seed}: {short_tb(e)}")
        return None
    for k, v in j.counts.items():
        sh.count(k, v)
    sh.case((G.program_key(prog), seed), nontrivial=j.counts["dependee_sets_compared"] >= 5)
    seen = set()
    for what, detail in refutations:
        if what in seen:
            continue
        seen.add(what)
        sh.violation(None, f"{what}: {str(detail)[:700]}", {"prog": prog, "seed": seed, "detail": detail})
    return {"tokens_checked": j.counts["tokens_checked"], "dependee_sets_compared": j.counts["dependee_sets_compared"],
            "provenance_rows": len(j.edges), "token_rows": len(j.tok_rows),
            "families": {k[7:]: v for k, v in j.counts.items() if k.startswith("family_")}}


def run_shard(sh: Shard) -> None:
    from vf.harness import c04_wfgen as G

    G.warm_up()
    sh.t0 = time.time()  # soft budget counts from after the engine import (minutes on a loaded machine)
    rng = sh.rng("programs", sh.shard)
    nsched = sh.pick(2, 4)
    ops = collections.Counter()
    rows_hist = collections.Counter()
    nprog = 0
    crafted = [dict(p, crafted=n) for n, p in sorted(G.CRAFTED.items()) if not p.get("fail")] if sh.shard == 0 else []
    # under heavy machine load the imports alone can eat the soft budget: always run a minimum of programs
    while not sh.out_of_budget() or nprog < sh.pick(5, 12):
        cls = "plain" if rng.random() < 0.85 else "side"
        prog = crafted.pop() if crafted else G.gen_program(rng, cls=cls, max_ops=sh.pick(10, 22),
                                                            max_depth=sh.pick(4, 5), max_tags=sh.pick(48, 120))
        nprog += 1
        for k, v in G.op_histogram(prog).items():
            ops[k] += v
        seeds = [None] + [rng.randrange(1, 10**6) for _ in range(nsched - 1)]
        for seed in seeds:
            if sh.out_of_budget() and nprog > sh.pick(5, 12):
                break
            r = run_case(sh, prog, seed)
            if r is None:
                continue
            rows_hist[min(r["provenance_rows"] // 25 * 25, 300)] += 1
            if nprog <= 2 and seed is None and sh.shard < 2:
                sh.sample(dict(r, ops=G.op_histogram(prog), seed=seed))
    sh.count("programs", nprog)
    sh.note("op_kinds", dict(ops))
    sh.note("provenance_rows_per_run_hist", {str(k): v for k, v in sorted(rows_hist.items())})


def replay(sh: Shard, w: dict) -> None:
    run_case(sh, w["prog"], w["seed"])
