"""C17  Retries are bounded; exhausted retries fail the workflow; the dummy manager fails at once.

Workload: one failing job J (every job of small shapes), phase in {schedule, transfer, execute},
kind soft (plus fail-stop/own everywhere and fail-stop/all on pipelines), injected failure count
f in 0..limit+2, limit in 1..5, RollbackFailureManager(max_retries=limit, retry_delay=0); and the
same faults with the engine's default (dummy) failure manager.

Oracle (counters kept by the harness itself, never RecoveryRequest.version which counts roll-backs):
 rollback manager
  U1  no job's command is executed more than `limit` times;
  U2  the failing phase of J is attempted at most `limit` times;
  U3  f >= limit  => executor.run() raises (not returns, not quiescent-deadlocks) and J's failing
      phase was attempted exactly `limit` times (for a fail-stop(own) fault of a two-input job: at
      most `limit` times - the job also fails in its other transfer / schedule step, which consumes
      budget);
  U4  f < limit and soft => the run completes with the right output, J's phase attempted f+1 times,
      J's command ran f+1 times (execute phase) or once (schedule/transfer phase);
  U5  RecoveryRequest.version never exceeds `limit`.
 dummy manager
  D1  f >= 1 => executor.run() raises; J's failing phase attempted exactly once; no command ran twice;
  D2  f == 0 => completes with the right output.
Out of domain (recorded): on loop shapes a *definitive* failure (dummy manager, or retries
exhausted) of the loop counter job or of a job upstream of the loop leaves the test-suite style loop
wiring hanging; real CWL loops fail cleanly in the same situations (control experiment in the design
notes), so the hang is attributed to the harness wiring.
For fail-stop kinds with f < limit only the upper bounds are judged (ancestors are rolled back and
may legitimately exhaust their own counters: recorded as `failstop_below_limit_*`).
"""
from __future__ import annotations

import os

from vf.common import Shard

PROPERTY = "C17"
META = {
    "text": "With limits 1..5 and 0..limit+2 injected failures per phase, no command ran more than `limit` times, "
            "exhausted retries made executor.run() raise after exactly `limit` attempts, fewer failures completed "
            "with the right output, and with the dummy manager the first failure failed the workflow after one attempt.",
    "note": "Executions/attempts are counted by the harness command and steps in memory.",
    "technique": "fault enumeration + counters vs configured limit + quiescence detector",
}


def plan(tier):
    q = tier == "quick"
    return {
        "level": "fault_enumeration",
        "shards": 16,
        "budget_s": 45 if q else 450,
        "timeout_s": 420 if q else 1800,
        "min_nontrivial": 100 if q else 500,
        "required_counters": ["oracle_bound", "oracle_exhausted_raises", "oracle_below_limit_completes",
                              "oracle_dummy_first_failure", "cases_dummy", "cases_rollback",
                              "oracle_cross_bound", "oracle_cross_exhausted_raises", "oracle_cross_within_budget_completes",
                              "cases_failure_with_running_siblings", "cases_failure_after_some_siblings_completed"],
        "rule": "case = (shape, job, phase, kind, failure count f, limit, manager); all (job, phase) of pipelines 1..3, "
                "scatter 3, loop 2, diamond with limit 1..5 x f 0..limit+2 (quick: seeded sample). Non-trivial = the fault "
                "fired at least once; distinct = distinct case tuple.",
        "exhaustive": not q,
        "assumptions": ["one failing job per run", "retry_delay 0"],
    }


def gen_cases(sh: Shard):
    from vf.harness import c16_cases as C
    from vf.harness import c16_recovery as R

    rng = sh.rng("cases")
    pipes = [C.pipeline(1), C.pipeline(2), C.pipeline(3)]
    others = [C.scatter(3), C.loop(2), C.diamond(1, 1), C.scatter(2, body=2), C.loop(3, pre=True)]
    cases = []
    for sp in pipes + others:
        for j in R.jobs_of(sp):
            for ph in C.PHASES:
                for limit in range(1, 6):
                    for f in range(0, limit + 3):
                        kinds = ["soft", "own"] + (["all"] if sp in pipes else [])
                        for kind in kinds:
                            if kind != "soft" and f == 0:
                                continue
                            cases.append({"prog": sp, "job": j["job"], "phase": ph, "kind": kind, "f": f,
                                          "limit": limit, "manager": "default"})
                # dummy manager: limits irrelevant
                for f in (0, 1, 2):
                    for kind in ("soft", "own"):
                        if kind != "soft" and f == 0:
                            continue
                        cases.append({"prog": sp, "job": j["job"], "phase": ph, "kind": kind, "f": f,
                                      "limit": None, "manager": "dummy"})
    rng.shuffle(cases)
    # (b) definitive / recoverable failures inside a scatter while siblings are still RUNNING (held inside
    # their command until the faulty job passes - for ever if it never does, so the engine must cancel them),
    # optionally after some siblings have already completed
    hold = []
    for n in (2, 3, 4, 6):
        sp = C.scatter(n)
        for i in sorted({0, n // 2, n - 1}):
            others = [f"/b/0.{k}" for k in range(n) if k != i]
            variants = [(others, [])]
            if n >= 3:
                half = others[: len(others) // 2]
                variants.append(([j for j in others if j not in half], half))  # `half` completed first
            for held, after in variants:
                # execute phase only: schedule and transfer steps handle the tags of a step one after the other, so
                # a sibling cannot be "still running" in the same step, and ExecuteStep is where the engine cancels
                for ph in ("execute",):
                    for f in (1, 2):
                        hold.append({"prog": sp, "job": f"/b/0.{i}", "phase": ph, "kind": "soft", "f": f, "limit": None,
                                     "manager": "dummy", "hold": held, "after": after, "group": "hold"})
                    for limit in (1, 2, 3, 4):
                        for f in (limit - 1, limit, limit + 1):
                            if f < 1:
                                continue
                            for kind in ("soft", "own"):
                                hold.append({"prog": sp, "job": f"/b/0.{i}", "phase": ph, "kind": kind, "f": f,
                                             "limit": limit, "manager": "default", "hold": held, "after": after,
                                             "group": "hold"})
    for sp, job in ((C.scatter(3, body=2), "/b1/0.1"), (C.combo_pipe_scatter_pipe(3), "/b2/0.0")):
        sibs = [j["job"] for j in R.jobs_of(sp) if j["step"] == job.rsplit("/", 1)[0] and j["job"] != job]
        for limit, f in ((None, 1), (1, 1), (2, 2), (2, 1)):
            hold.append({"prog": sp, "job": job, "phase": "execute", "kind": "soft", "f": f, "limit": limit,
                         "manager": "dummy" if limit is None else "default", "hold": sibs, "after": [], "group": "hold"})
    rng.shuffle(hold)
    # (a) cross-job budget: upstream job A consumes k of its budget by its own soft failures, then a
    # downstream job B fails r times with a fail-stop that deletes everything, rolling A (and every other
    # ancestor) back r times
    cross = []
    chains = [(C.pipeline(2), "/p0/0", "/p1/0"), (C.pipeline(3), "/p0/0", "/p2/0"), (C.pipeline(3), "/p1/0", "/p2/0"),
              (C.pipeline(3), "/p0/0", "/p1/0"), (C.scatter(3), "/a/0", "/c/0"), (C.scatter(2), "/b/0.1", "/c/0")]
    for sp, a, b in chains:
        for limit in range(1, 6):
            for k in range(0, limit):
                for r in range(1, limit - k + 2):
                    for pa in (("execute",) if k == 0 else C.PHASES):
                        for pb in ("execute", "transfer"):
                            cross.append({"prog": sp, "a": a, "b": b, "k": k, "r": r, "pa": pa, "pb": pb, "limit": limit,
                                          "manager": "default", "group": "cross"})
    rng.shuffle(cross)
    for c in cases + hold + cross:
        c["seed"] = rng.randrange(1 << 30)
    dummy = [c for c in cases if c["manager"] == "dummy"]
    roll = [c for c in cases if c["manager"] != "dummy"]
    out = []
    while dummy or roll or hold or cross:  # period 7 (4 single, 1 dummy, 1 hold, 1 cross) is coprime with the shard counts
        out += roll[:4]
        roll = roll[4:]
        for group in (dummy, hold, cross):
            if group:
                out.append(group.pop(0))
    return out


def run_case(sh: Shard, case: dict) -> None:
    from vf.harness import c16_cases as C
    from vf.harness import c16_recovery as R

    if case.get("group") == "cross":
        return run_cross(sh, case)
    prog, job, ph, kind, f, limit, mgr, seed = (case[k] for k in ("prog", "job", "phase", "kind", "f", "limit", "manager", "seed"))
    faults = [{"job": job, "phase": ph, "kind": kind, "count": f}] if f > 0 else []
    if faults and (case.get("hold") or case.get("after")):
        faults[0].update(hold=list(case.get("hold") or ()), after=list(case.get("after") or ()))
        sh.count("cases_failure_with_running_siblings")
        if case.get("after"):
            sh.count("cases_failure_after_some_siblings_completed")
    res = R.run_sync(prog, faults, os.path.join(sh.scratch, "case"), seed=seed, failure_manager=mgr,
                     max_retries=limit, wall_timeout=sh.pick(90, 300))
    key = (prog["shape"], job, ph, kind, f, limit, mgr, len(case.get("hold") or ()), len(case.get("after") or ()))
    sh.case(key, nontrivial=C.fired(res) > 0 or f == 0)
    sh.count("cases_dummy" if mgr == "dummy" else "cases_rollback")
    sh.count(f"phase_{ph}")
    expected = R.denote(prog)
    attempts = res.attempts.get(f"{job}|{ph}", 0)
    counts = res.exec_counts()
    if len(sh.samples) < 2 and f > 0 and sh.shard in (1, 2):
        sh.sample({"case": {k: case[k] for k in ("job", "phase", "kind", "f", "limit", "manager")}, "shape": prog["shape"],
                   "status": res.status, "exc": res.exc, "attempts_of_failing_phase": attempts, "exec_counts": counts,
                   "versions": res.versions})

    # C17/retry-not-counted-while-job-recovering: the failed job itself is seen as "recovering" by
    # _synchronize_workflows (another step of the same job - the second transfer step of a two-input
    # job - is being recovered at the same time), so _update_request is skipped for that failure and
    # the job gets one more attempt per such skip than max_retries allows.
    skipped = sum(1 for sy in res.syncs if sy["failed"] == job and sy["recovering"].get(job) is True)
    two_input = any(len(j["deps"]) >= 2 for j in R.jobs_of(prog) if j["job"] == job)

    def bad(what, uncounted=False):
        mech = None
        if (uncounted and mgr == "default" and two_input and skipped > 0 and limit is not None
                and 0 < attempts - limit <= skipped and all(n <= limit for n in counts.values())):
            mech = "C17/retry-not-counted-while-job-recovering"
        sh.violation(mech, f"{what} [shape {prog['shape']} job {job} phase {ph} kind {kind} failures {f} limit {limit} "
                           f"manager {mgr}]", C.compact(res, prog, faults, seed, {"case": {k: v for k, v in case.items() if k != 'prog'}, "kind": "c17"}))

    if res.status == "walltimeout":
        sh.inconclusive_because(f"wall-clock watchdog on {key}")
        return
    if res.status == "deadlock":
        if C.has_loop(prog["stages"]) and (mgr == "dummy" or f >= (limit or 0)):
            # A definitive failure of the counter job or of a job upstream of the loop leaves the
            # harness's loop wiring (three loop variables with separate injectors and an increment
            # job, copied from tests/utils RecoveryTranslator) waiting for ever.  Control experiment
            # with real CWL documents (cwltool:Loop with a failing iteration; a failing step before the
            # loop) through streamflow.cwl.runner: both fail cleanly (exit 1).  => artefact of the
            # test-suite style wiring, recorded, not judged.
            sh.count("ood_loop_wiring_hang_after_definitive_failure")
            return
        bad("executor neither returns nor raises (event loop quiescent)")
        return
    if mgr == "dummy":
        sh.count("oracle_dummy_first_failure")
        if f >= 1:
            if res.status != "raised":
                bad(f"dummy failure manager: workflow survived a job failure (status {res.status})")
            if attempts != 1:
                bad(f"dummy failure manager: failing phase attempted {attempts} times, expected exactly 1")
            twice = {j: n for j, n in counts.items() if n > 1}
            if twice:
                bad(f"dummy failure manager: commands executed more than once: {twice}")
        else:
            if res.status != "ok" or res.outputs != [expected]:
                bad(f"dummy failure manager, no failure: status {res.status}, outputs {res.outputs}")
        return
    # rollback manager
    sh.count("oracle_bound")
    over = {j: n for j, n in counts.items() if n > limit}
    if over:
        bad(f"commands executed more than limit={limit} times: {over}")
    if attempts > limit:
        bad(f"failing phase attempted {attempts} times > limit {limit}", uncounted=True)
    vover = {j: v for j, v in res.versions.items() if v > limit}
    if vover:
        bad(f"RecoveryRequest.version exceeds limit {limit}: {vover}")
    if f >= limit:
        sh.count("oracle_exhausted_raises")
        if res.status != "raised":
            bad(f"job failed {f} >= limit {limit} times but executor.run() ended with status {res.status}", uncounted=True)
        elif attempts != limit and (kind == "soft" or not two_input):
            # (a fail-stop(own) fault of a two-input job makes the job fail in its other transfer / schedule step too;
            # those secondary failures of the same job consume budget, so it may be aborted after fewer attempts of
            # the faulted phase - still "within the bound", which U2 checks)
            bad(f"exhausted retries: failing phase attempted {attempts} times, expected exactly limit={limit}", uncounted=True)
        elif attempts != limit:
            sh.count("two_input_job_aborted_before_limit_attempts_of_faulted_phase")
    elif kind == "soft":
        sh.count("oracle_below_limit_completes")
        if res.status != "ok" or res.outputs != [expected]:
            bad(f"{f} < limit {limit} soft failures but status {res.status} {res.exc_msg or ''} outputs {str(res.outputs)[:200]}")
        else:
            want_attempts = f + 1
            want_exec = f + 1 if ph == "execute" else 1
            if attempts != want_attempts or counts.get(job) != want_exec:
                bad(f"{f} soft failures: phase attempted {attempts} (expected {want_attempts}), command ran "
                    f"{counts.get(job)} (expected {want_exec})")
    else:
        sh.count("failstop_below_limit_" + res.status)


def predict_cross(prog, a, b, k, r, limit):
    """Version model of the pinned manager: every failure of a job and every roll-back of an ancestor
    needs version < limit.  Returns (must_raise, executions of A if the run completes)."""
    from vf.harness import c16_recovery as R

    anc = R.ancestors(R.jobs_of(prog))[b]
    need = {b: 1 + r}
    for x in anc:
        need[x] = 1 + r + (k if x == a else 0)
    return any(v > limit for v in need.values()), need


def run_cross(sh: Shard, case: dict) -> None:
    from vf.harness import c16_cases as C
    from vf.harness import c16_recovery as R

    prog, a, b, k, r, pa, pb, limit, seed = (case[x] for x in ("prog", "a", "b", "k", "r", "pa", "pb", "limit", "seed"))
    faults = [{"job": b, "phase": pb, "kind": "all", "count": r}]
    if k:
        faults.insert(0, {"job": a, "phase": pa, "kind": "soft", "count": k})
    res = R.run_sync(prog, faults, os.path.join(sh.scratch, "case"), seed=seed, failure_manager="default",
                     max_retries=limit, wall_timeout=sh.pick(90, 300))
    key = (prog["shape"], "cross", a, b, k, r, pa, pb, limit)
    sh.case(key, nontrivial=C.fired(res) > 0)
    sh.count("cases_cross_job_budget")
    must_raise, need = predict_cross(prog, a, b, k, r, limit)
    counts = res.exec_counts()
    if len(sh.samples) < 3 and sh.shard in (8, 9) and not any(isinstance(x, dict) and "cross" in x for x in sh.samples):
        sh.sample({"cross": {x: case[x] for x in ("a", "b", "k", "r", "pa", "pb", "limit")}, "shape": prog["shape"],
                   "predicted_raise": must_raise, "status": res.status, "exec_counts": counts, "versions": res.versions})

    def bad(what):
        sh.violation(None, f"{what} [shape {prog['shape']}: upstream {a} fails {k}x ({pa}, soft), downstream {b} fails {r}x "
                           f"({pb}, fail-stop/all), limit {limit}]",
                     C.compact(res, prog, faults, seed, {"case": {x: v for x, v in case.items() if x != "prog"}, "kind": "c17"}))

    if res.status == "walltimeout":
        sh.inconclusive_because(f"wall-clock watchdog on {key}")
        return
    if res.status == "deadlock":
        bad("executor neither returns nor raises (event loop quiescent)")
        return
    sh.count("oracle_cross_bound")
    over = {j: n for j, n in counts.items() if n > limit}
    if over:
        bad(f"commands executed more than limit={limit} times: {over}")
    if must_raise:
        sh.count("oracle_cross_exhausted_raises")
        if res.status != "raised":
            bad(f"roll-backs + own failures exceed the budget (needed versions {need}) but executor.run() ended with status "
                f"{res.status}; executions {counts}")
    else:
        sh.count("oracle_cross_within_budget_completes")
        if res.status != "ok" or res.outputs != [R.denote(prog)]:
            bad(f"budget sufficient (needed versions {need}) but status {res.status} {res.exc_msg or ''} outputs {str(res.outputs)[:200]}")
        else:
            want_a = 1 + r + (k if pa == "execute" else 0)
            if counts.get(a) != want_a:
                bad(f"upstream job ran {counts.get(a)} times, expected {want_a}")


def run_shard(sh: Shard) -> None:
    import time

    import vf.harness.c16_recovery  # noqa: F401

    t_start = time.time()
    cases = gen_cases(sh)
    done = 0
    for i, case in enumerate(cases):
        if not sh.mine(i):
            continue
        if (time.time() - t_start > sh.plan["budget_s"]) or sh.time_left() < -150:
            break
        run_case(sh, case)
        done += 1
    sh.note(f"shard{sh.shard}", {"planned": sum(1 for i in range(len(cases)) if sh.mine(i)), "done": done})


def replay(sh: Shard, w: dict) -> None:
    c = dict(w["case"], prog=w["prog"])
    c.setdefault("seed", w.get("seed", 0))
    run_case(sh, c)
