"""C32  Remapping CWL file values between directories is lossless.

Workload: the real `streamflow.cwl.utils.remap_token_value` (and through it `remap_path`) applied
old->new and back new->old to generated nested CWL values (arrays, records, File/Directory with
path / file:// location / both, secondaryFiles, listing, non-file look-alikes, other URL schemes).

Oracle (vf/models/c32_remap.py, independent string surgery, no os.path.relpath):
  one-way    for every path/location leaf under `old`:  decode(result) == new + (decode(leaf) - old),
             the form is kept (file:// stays a file:// URI, a plain path stays plain), and everything
             that is not such a leaf is returned unchanged;
  round trip remap(remap(v, old, new), new, old) == v  exactly (locations are canonical
             `file://`+quote(path), which is what StreamFlow's own get_file_token creates).

Domain: absolute normalised paths strictly under `old` are judged exactly; non-normalised spellings
(trailing '/', '//', '/./') are judged modulo normpath; `path == old` and paths outside `old` are
outside the statement ("under the old directory"): outcomes are recorded, not judged.
"""
from __future__ import annotations

import copy
import posixpath
import urllib.parse

from vf.common import Shard, short_tb
from vf.models import c32_remap as M

PROPERTY = "C32"
META = {
    "text": "On every generated nested CWL value, remap_token_value old->new->old returned the original value "
            "and the one-way result denoted new/<relative path> for every File/Directory path and file:// "
            "location under the old directory, while non-file values and other URL schemes came back unchanged; "
            "refutations caused by the listed percent-decoding defects are reported as known findings.",
    "note": "Only values produced by the generator (absolute POSIX paths, canonical file:// locations, posixpath "
            "as path processor); path==old and paths outside old are recorded, not judged.",
    "technique": "property-based round-trip + one-way law against an independent reference model",
}

FIXED_NAMES = [
    "f.txt", "a b", "per%cent", "a%41", "x%20y", "100%", "a%zz", "%", "%%41", "a%2541", "a%2Fb", "üñí",
    "e\u0301", "日本", "q?x", "h#1", "plus+", "tr.", "tr..", "...", "-dash", "semi;colon", "d/e", "d e/f%41",
    "a&b", "it's", 'q"q', "~t", "a:b", "a=b", "[x]", "{y}", "a,b", "$v", "a\\b", "n" * 120, ".hidden",
    "a@b", "a!b", "(p)", "*", "new\nline", "tab\tx", " lead", "trail ", "a/b/c/d", "%41/%42", "😀.txt",
]
COLON_NAMES = ["d:/e", "ns:/x y", "c:/a%41"]
ATOMS = list("abcxyz019") + [" ", "%", "%41", "%20", "%25", "%2F", "%C3%BC", "%zz", "%4", "#", "?", "ü", "✓", ".",
                             "..", "-", "+", "&", ";", "'", '"', "=", "~", "$", "(", ")", "[", "]", ",", "@", "!", "\\"]
PLAIN_ATOMS = list("abcxyz019") + [" ", "#", "?", "ü", "✓", ".", "-", "+", "&", ";", "'", "=", "~", "$", "(", ","]
FIXED_DIRS = ["/old/dir", "/old/dir/", "/o", "/o/", "/new/base", "/new/base/", "/n", "/data/in put", "/wörk/ü"]


def plan(tier):
    q = tier == "quick"
    return {
        "level": "exploration",
        "shards": 16,
        "budget_s": 45 if q else 420,
        "timeout_s": 600 if q else 3000,
        "min_nontrivial": 3000 if q else 100000,
        "required_counters": ["oneway_leaves_judged", "roundtrip_leaves_judged", "nonfile_unchanged_checked"],
        "rule": "exhaustive grid name(52 fixed names) x class x path/location/both x old x new (with/without trailing "
                "slash, nested in each other); then seeded random nested values (arrays, records, secondaryFiles, "
                "listing, depth<=3) whose names are built from an alphabet with space, %, %41, %25, %2F, %zz, #, ?, "
                "unicode, dots; random old/new. Distinct = distinct (old,new,value); non-trivial = the value contains "
                "at least one File/Directory path or file:// location under old.",
        "exhaustive": False,
        "assumptions": ["posixpath as path processor (the only one reachable on this platform)",
                        "locations in canonical form file://+quote(path)"],
    }


# ---------------------------------------------------------------------------------------------------
# generator
# ---------------------------------------------------------------------------------------------------
def gen_component(rng, atoms):
    while True:
        c = "".join(rng.choice(atoms) for _ in range(rng.randint(1, 5)))
        if c not in (".", "..") and "/" not in c.replace("%2F", ""):
            return c


def gen_name(rng, atoms=ATOMS):
    if rng.random() < 0.25:
        n = rng.choice(FIXED_NAMES)
        if atoms is ATOMS or "%" not in n:
            return n
    return "/".join(gen_component(rng, atoms) for _ in range(rng.choice([1, 1, 1, 2, 3])))


def gen_dir(rng):
    r = rng.random()
    if r < 0.5:
        d = rng.choice(FIXED_DIRS)
    else:
        atoms = PLAIN_ATOMS if rng.random() < 0.85 else ATOMS
        d = "/" + "/".join(gen_component(rng, atoms) for _ in range(rng.randint(1, 3)))
        if rng.random() < 0.3:
            d += "/"
    return d


def gen_dirs(rng):
    old = gen_dir(rng)
    r = rng.random()
    if r < 0.1:
        new = old.rstrip("/") + "/sub"
    elif r < 0.2 and old.rstrip("/").count("/") > 1:
        new = posixpath.dirname(old.rstrip("/"))
    elif r < 0.23:
        new = "/"
    else:
        new = gen_dir(rng)
    if new.rstrip("/") == old.rstrip("/"):
        new = old.rstrip("/") + "2"
    return old, new


def mkfile(rng, old, depth, maxdepth, atoms, nonnorm=False, where="in"):
    o = old.rstrip("/")
    if where == "in":
        path = o + "/" + gen_name(rng, atoms)
    elif where == "self":
        path = o or "/"
    else:  # outside
        path = "/elsewhere/" + gen_name(rng, PLAIN_ATOMS)
    cls = rng.choice(["File", "Directory"])
    if nonnorm:
        k = rng.random()
        if k < 0.4:
            path = path + "/"
        elif k < 0.7:
            i = path.rfind("/")
            path = path[:i] + "//" + path[i + 1:]
        else:
            i = path.rfind("/")
            path = path[:i] + "/./" + path[i + 1:]
    v = {"class": cls}
    mode = rng.choice(["path", "location", "both"])
    if mode in ("location", "both"):
        v["location"] = M.canonical_location(path)
    if mode in ("path", "both"):
        v["path"] = path
    if rng.random() < 0.4:
        v["basename"] = posixpath.basename(path.rstrip("/"))
    if cls == "File":
        if rng.random() < 0.2:
            v["size"] = rng.randint(0, 9999)
        if rng.random() < 0.15:
            v["contents"] = f"text mentioning {o}/f.txt and file://{o}/a%20b"
        if rng.random() < 0.15:
            v["format"] = "http://edamontology.org/format_2330"
        if rng.random() < 0.1:
            v["checksum"] = "sha1$da39a3ee5e6b4b0d3255bfef95601890afd80709"
    if depth < maxdepth and rng.random() < 0.25:
        v["secondaryFiles"] = [mkfile(rng, old, depth + 1, maxdepth, atoms, nonnorm, where if where != "self" else "in")
                               for _ in range(rng.randint(0, 2))]
    if cls == "Directory" and depth < maxdepth and rng.random() < 0.35:
        v["listing"] = [mkfile(rng, old, depth + 1, maxdepth, atoms, nonnorm, where if where != "self" else "in")
                        for _ in range(rng.randint(0, 3))]
    return v


def mkscalar(rng, old):
    o = old.rstrip("/")
    return rng.choice([3, 2.5, True, None, "s", "", o + "/f.txt", "file://" + o + "/a%20b", "http://ex.org/a%20b",
                       {"class": "Other", "path": o + "/x", "location": "file://" + o + "/x"},
                       {"type": "record", "path": o + "/x%41"}, [o + "/x", 1]])


def mkurlfile(rng, old):
    o = old.rstrip("/")
    loc = rng.choice(["http://ex.org" + o + "/a", "https://h/a%20b?q=1#frag", "s3://bucket" + o + "/k%41",
                      "ftp://h/x y", "keep://abc+123/d/e", "toolfile://x"])
    v = {"class": "File", "location": loc}
    if rng.random() < 0.3:
        v["basename"] = "a"
    return v


def gen_value(rng, old, maxdepth, atoms, nonnorm, where):
    f = lambda: mkfile(rng, old, 0, maxdepth, atoms, nonnorm, where)
    r = rng.random()
    if r < 0.3:
        return f()
    if r < 0.45:
        return [rng.choice([f, lambda: mkscalar(rng, old), lambda: mkurlfile(rng, old)])() for _ in range(rng.randint(0, 4))]
    if r < 0.65:
        return {"r": f(), "k": mkscalar(rng, old), "u": mkurlfile(rng, old), "n": None}
    if r < 0.8:
        return {"a": [f(), {"in ner": f(), "s": mkscalar(rng, old)}], "b": [[f()], []], "class": "NotAFile"}
    if r < 0.9:
        return [[f(), [f(), mkurlfile(rng, old)]], {"x": {"y": {"z": f()}}}]
    if r < 0.95:
        return mkurlfile(rng, old)
    return mkscalar(rng, old)


def gen_case(rng, maxdepth):
    old, new = gen_dirs(rng)
    r = rng.random()
    if r < 0.88:
        dom = "in"
    elif r < 0.95:
        dom = "nonnorm"
    elif r < 0.975:
        dom = "self"
    else:
        dom = "outside"
    atoms = ATOMS if dom == "in" else PLAIN_ATOMS
    if dom != "in":
        # out-of-exact-domain spellings are only combined with directory names free of '%'
        while "%" in old or "%" in new:
            old, new = gen_dirs(rng)
    value = gen_value(rng, old, maxdepth, atoms, dom == "nonnorm", {"in": "in", "nonnorm": "in"}.get(dom, dom))
    if dom == "in" and rng.random() < 0.02:
        value = {"class": "File", "path": old.rstrip("/") + "/" + rng.choice(COLON_NAMES)}
    return {"kind": "remap", "old": old, "new": new, "domain": dom, "value": value}


def grid_cases():
    olds = ["/old/dir", "/old/dir/", "/o"]
    news = ["/new/base", "/new/base/", "/old/dir/sub", "/"]
    for name in FIXED_NAMES + COLON_NAMES:
        for cls in ("File", "Directory"):
            for mode in ("path", "location", "both"):
                for old in olds:
                    for new in news:
                        p = old.rstrip("/") + "/" + name
                        v = {"class": cls}
                        if mode != "path":
                            v["location"] = M.canonical_location(p)
                        if mode != "location":
                            v["path"] = p
                        yield {"kind": "remap", "old": old, "new": new, "domain": "in", "value": v}


# ---------------------------------------------------------------------------------------------------
# oracle
# ---------------------------------------------------------------------------------------------------
def _first_diff(a, b, where=()):
    if type(a) is not type(b):
        return where, a, b
    if isinstance(a, dict):
        if list(a.keys()) != list(b.keys()):
            return where, list(a.keys()), list(b.keys())
        for k in a:
            d = _first_diff(a[k], b[k], where + (k,))
            if d:
                return d
        return None
    if isinstance(a, list):
        if len(a) != len(b):
            return where, f"len {len(a)}", f"len {len(b)}"
        for i, (p, q) in enumerate(zip(a, b)):
            d = _first_diff(p, q, where + (i,))
            if d:
                return d
        return None
    return None if a == b else (where, a, b)


def run_case(sh: Shard, case: dict) -> None:
    from streamflow.cwl.utils import remap_token_value

    old, new, dom = case["old"], case["new"], case.get("domain", "in")
    orig = case["value"]
    lv = list(M.leaves(orig))
    local = [(w, f, s) for (w, f, s) in lv if not M.is_other_url(s)]
    sh.case((old, new, orig), nontrivial=bool(local) and dom in ("in", "nonnorm"))

    arg = copy.deepcopy(orig)
    try:
        x = remap_token_value(posixpath, old, new, arg)
        xs = copy.deepcopy(x)
        mutated, aliased = arg != orig, x is arg
        y = remap_token_value(posixpath, new, old, x)
    except Exception as e:
        if dom in ("self", "outside"):
            sh.count("outside_domain_raised")
            return
        sh.violation(None, f"remap_token_value raised {type(e).__name__}: {e}", dict(case, err=short_tb(e)))
        return
    if mutated:
        sh.count("argument_mutated_in_place(recorded)")
    if aliased:
        sh.count("result_is_argument_object(recorded)")

    if dom in ("self", "outside"):
        sh.count("outside_domain_recorded")
        sh.count("outside_domain_roundtrip_" + ("equal" if y == orig else "differs"))
        return

    seen = set()

    def report(mech, what, extra):
        if (mech, what[:40]) in seen:
            return
        seen.add((mech, what[:40]))
        sh.violation(mech, what, dict(case, **extra))

    # what is left of xs / y once every judged leaf is put back must be the original value:
    # structure, key order, non-file values, other URL schemes, look-alike strings
    xs_rest, y_rest = copy.deepcopy(xs), copy.deepcopy(y)
    for where, field, s in lv:
        try:
            gx, gy = M.get_at(xs, where), M.get_at(y, where)
        except (KeyError, IndexError, TypeError):
            continue  # structural damage: caught by the rest-comparison below
        if M.is_other_url(s):
            sh.count("other_scheme_checked")
            if gx != s or gy != s:
                report(None, f"{field} with another URL scheme changed: {s!r} -> {gx!r} -> {gy!r}", {"leaf": list(where)})
            continue
        if not isinstance(gx, str) or not isinstance(gy, str):
            continue
        # ---- one-way law
        sh.count("oneway_leaves_judged")
        if dom == "in":
            want = M.move(M.decode(s), old, new)
            ok = M.decode(gx) == want and M.is_file_url(gx) == M.is_file_url(s) and not M.is_other_url(gx)
        else:
            want = M.move(posixpath.normpath(M.decode(s)), old, new)
            ok = posixpath.normpath(M.decode(gx)) == want and M.is_file_url(gx) == M.is_file_url(s)
        if not ok:
            mech = M.classify_oneway(s, gx, old, new) if dom == "in" else None
            if mech is None and dom == "in" and ":/" in s and not M.SCHEME.match(s) and gx == s:
                mech = "C32/colon-slash-path-taken-for-url"
            report(mech, f"one-way: {field} {s!r} remapped {old!r}->{new!r} gives {gx!r}, which denotes "
                         f"{M.decode(gx)!r}; expected a {'file:// URI' if M.is_file_url(s) else 'plain path'} denoting {want!r}",
                   {"leaf": list(where), "law": "oneway", "got": gx})
        M.set_at(xs_rest, where, s)
        # ---- round trip
        sh.count("roundtrip_leaves_judged")
        if dom == "in":
            ok = gy == s
        else:
            ok = posixpath.normpath(M.decode(gy)) == posixpath.normpath(M.decode(s)) and M.is_file_url(gy) == M.is_file_url(s)
        if not ok:
            mech = M.classify_roundtrip(s, gy, old, new) if dom == "in" else None
            report(mech, f"round trip: {field} {s!r} remapped {old!r}->{new!r}->{old!r} comes back as {gy!r} "
                         f"(intermediate {gx!r})", {"leaf": list(where), "law": "roundtrip", "got": gy, "mid": gx})
        M.set_at(y_rest, where, s)

    sh.count("nonfile_unchanged_checked")
    for name, rest in (("one-way", xs_rest), ("round trip", y_rest)):
        d = _first_diff(orig, rest)
        if d:
            report(None, f"{name}: something that is not a local File/Directory path changed at {list(d[0])}: "
                         f"{d[1]!r} -> {d[2]!r}", {"leaf": list(d[0]), "law": name + "-rest"})


def run_shard(sh: Shard) -> None:
    import time

    import streamflow.cwl.utils  # noqa: F401  (warm-up: the import is not part of the case budget)

    deadline = time.time() + sh.plan["budget_s"]
    # 1. deterministic grid (both tiers), sharded
    hist = {}
    for i, case in enumerate(grid_cases()):
        if sh.mine(i):
            run_case(sh, case)
            sh.count("grid_cases")
    # 2. random nested values
    rng = sh.rng("rand", sh.shard)
    maxdepth = sh.pick(2, 3)
    n = sh.pick(4000, 200000)
    for i in range(n):
        if time.time() > deadline:
            break
        case = gen_case(rng, maxdepth)
        hist[case["domain"]] = hist.get(case["domain"], 0) + 1
        run_case(sh, case)
        sh.count("random_cases")
        if i < 40 and len(sh.samples) < 2 and case["domain"] == "in" and isinstance(case["value"], dict) \
                and any(True for _ in M.leaves(case["value"])):
            from streamflow.cwl.utils import remap_token_value
            sh.sample({"old": case["old"], "new": case["new"], "value": case["value"],
                       "remapped": remap_token_value(posixpath, case["old"], case["new"], copy.deepcopy(case["value"]))})
    sh.note("domain_histogram", hist)


def replay(sh: Shard, w: dict) -> None:
    run_case(sh, {k: w[k] for k in ("old", "new", "value") if k in w} | {"domain": w.get("domain", "in"), "kind": "remap"})
