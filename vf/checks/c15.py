"""C15  Each scheduled job gets its own existing working directories.

Program: a real `Workflow` with `DeployStep`s, 1..3 scattered steps (`ScatterStep` -> real
`ScheduleStep`, 2..40 jobs each, run concurrently) bound to 1..2 targets over

  * the real `LocalConnector` (type `local`),
  * `vf-hw`        local locations with slots, `locations: 2`,
  * `vf-c15-shell` shell-based remote locations (inherited BaseConnector code, persistent `sh`),
                   each location with a PRIVATE filesystem view of the deployment's mount directory
                   (mount namespace), `locations: 1..2`,

with and without step-fixed input/output/tmp directories, target-level or deployment-level workdir,
slots small enough that jobs queue and are released by a harness "completer" in random order.

Oracle, evaluated synchronously inside the job port's `put` (the instant the `JobToken` is emitted):
for each of the job's three directories and each allocated location, the directory exists on THAT
location (host-side `os.path.isdir` through the location's root) and
`data_manager.get_data_locations(dir, deployment, location)` is non-empty; at the end, no directory
(by host identity) that the step did not fix is shared by two jobs, and every job the scheduler
allocated did get its `JobToken`.
"""
from __future__ import annotations

import asyncio
import os
import posixpath
import shutil

from vf.common import Shard, digest, short_tb

PROPERTY = "C15"

META = {
    "text": "When ScheduleStep emits a JobToken, the job's input/output/tmp directories exist on every "
            "allocated location, are registered there in the data manager, and are not shared with any "
            "other job unless the step fixed them.",
    "note": "Locations of the shell-based remote deployment have private filesystems emulated with mount "
            "namespaces; local multi-location deployments necessarily share the host filesystem.",
    "technique": "runtime monitor on the job port + direct filesystem / data-manager inspection",
}

KINDS = ("input", "output", "tmp")


def plan(tier):
    quick = tier == "quick"
    return {
        "level": "exploration",
        "shards": 16,
        "budget_s": 35 if quick else 600,
        "timeout_s": 600 if quick else 3000,
        # measured on a machine loaded by 8 other builders (load average 60..150): 19..145 per quick run
        "min_nontrivial": 8 if quick else 60,
        "required_counters": ["job_tokens_checked", "dir_exists_checked", "registration_checked",
                              "injectivity_checked", "jobs_on_shell_remote", "jobs_on_local",
                              "jobs_multi_location", "jobs_with_fixed_dir", "jobs_without_fixed_dir",
                              "fault_jobs_nonfirst_only"],
        "rule": "one case per generated program (deployments x steps x targets x fixed-directory mask x sizes); "
                "distinct = distinct program; non-trivial = >= 2 jobs were alive at the same time and at least "
                "one directory kind was not fixed.",
        "exhaustive": False,
        "assumptions": ["jobs are released (RUNNING->COMPLETED) by the harness, directories are never deleted during a program"],
    }


# --------------------------------------------------------------------------------------
def gen_case(rng, quick=True, remote=None, faults=True):
    """remote: None = any mix, True = at least one shell-based remote deployment, False = none"""
    deps = []
    mixes = [["shell"], ["local"], ["hw"], ["shell", "local"], ["shell", "hw"], ["shell", "shell"], ["hw", "local"]]
    if remote is not None:
        mixes = [m for m in mixes if ("shell" in m) == remote]
    kinds = rng.choice(mixes)
    for i, k in enumerate(kinds):
        d = {"name": f"{k}{i}", "kind": k, "dep_workdir": rng.random() < 0.5}
        if k == "shell":
            d["nloc"] = rng.choice([1, 2, 2, 3])
            d["slots"] = rng.choice([1, 2, 4, 8, 64])
            if faults and rng.random() < 0.5:
                # directory creation fails on a seeded subset of this deployment's locations
                d["nloc"] = max(2, d["nloc"])
                which = rng.choice(["first", "nonfirst", "nonfirst", "nonfirst", "all", "random"])
                idx = {"first": [0], "nonfirst": list(range(1, d["nloc"])) if rng.random() < 0.5 else [d["nloc"] - 1],
                       "all": list(range(d["nloc"])),
                       "random": sorted(rng.sample(range(d["nloc"]), rng.randint(1, d["nloc"])))}[which]
                d["fault"] = {"kind": rng.choice(["file", "run"]), "locations": idx}
        elif k == "hw":
            d["nloc"] = 2
            d["slots"] = rng.choice([2, 4, 8, 64])
        deps.append(d)
    steps = []
    kind_of = {d["name"]: d["kind"] for d in deps}
    for s in range(rng.choice([1, 1, 2, 3])):
        tg = []
        for d in rng.sample(deps, rng.randint(1, len(deps))):
            t = {"dep": d["name"], "locations": 1, "own_workdir": rng.random() < 0.5 or not d["dep_workdir"]}
            if d["kind"] in ("shell", "hw") and d["nloc"] >= 2 and rng.random() < 0.5:
                t["locations"] = 2
            if d.get("fault") and d["nloc"] >= 2 and rng.random() < 0.8:
                t["locations"] = 2  # the fault class is about multi-location jobs
            tg.append(t)
        mask = rng.choice([[0, 0, 0], [0, 0, 0], [1, 1, 1], [1, 0, 0], [0, 1, 0], [0, 0, 1], [1, 0, 1]])
        if any(kind_of[t["dep"]] == "shell" for t in tg):  # every remote operation is a real shell round trip
            njobs = rng.choice([2, 3, 4] if quick else [2, 5, 12, 25, 40])
        else:
            njobs = rng.choice([2, 3, 5, 8, 12, 40] if quick else [2, 5, 12, 40, rng.randint(2, 40)])
        steps.append({"name": f"s{s}", "njobs": njobs, "targets": tg, "fixed": dict(zip(KINDS, mask))})
    return {"deployments": deps, "steps": steps, "jitter": rng.randrange(1 << 30),
            "hold": rng.choice([0, 1, 2, 4, 4, 8, 8, 16, 40])}


# --------------------------------------------------------------------------------------
async def run_case(sh: Shard, case, serial=0, deadline=None):
    import random
    import time

    from streamflow.core.config import BindingConfig
    from streamflow.core.deployment import DeploymentConfig, Target
    from streamflow.core.workflow import Status, Token, Workflow
    from streamflow.workflow.step import DeployStep, ScatterStep, ScheduleStep
    from streamflow.workflow.token import JobToken, ListToken, TerminationToken

    from vf import perturb
    from vf.harness import c15_world  # noqa: F401  (registers vf-c15-shell)
    from vf.harness.ctx import close_context, make_context
    from vf.perturb import Sched

    P = os.path.join(sh.scratch, f"p{serial}")
    shutil.rmtree(P, ignore_errors=True)
    os.makedirs(P)
    Sched.reset(case["jitter"], K=3)
    crng = random.Random(case["jitter"] ^ 0x5A5A)
    ctx = make_context(os.path.join(P, "ctx"), db="vf-jitter")
    wf = Workflow(context=ctx, name=f"c15-{serial}", config={})
    dcs, dinfo, faulted = {}, {}, {}
    for d in case["deployments"]:
        name = d["name"]
        if d["kind"] == "local":
            base = os.path.join(P, "wl", name)
            dc = DeploymentConfig(name=name, type="local", config={}, external=True, lazy=False,
                                  workdir=os.path.join(base, "dwd") if d["dep_workdir"] else None)
        elif d["kind"] == "hw":
            base = os.path.join(P, "wh", name)
            dc = DeploymentConfig(name=name, type="vf-hw",
                                  config={"locations": {f"{name}-l{i}": {"slots": d["slots"]} for i in range(d["nloc"])}},
                                  external=True, lazy=False,
                                  workdir=os.path.join(base, "dwd") if d["dep_workdir"] else None)
        else:
            base = os.path.join(P, "m", name)
            fault = d.get("fault") if c15_world.unshare_available() else None
            bad = [f"{name}-r{i}" for i in fault["locations"]] if fault else []
            faulted[name] = set(bad)
            if fault and fault["kind"] == "file":
                # on the faulted locations every directory the jobs could be created under is a regular
                # file, so `mkdir -p <workdir>/<uuid>` fails there with ENOTDIR
                for ln in bad:
                    root = os.path.join(P, "roots", name, ln)
                    os.makedirs(root, exist_ok=True)
                    for entry in ["dwd", "fixed"] + ["twd-" + s["name"] for s in case["steps"]]:
                        with open(os.path.join(root, entry), "w") as f:
                            f.write("not a directory\n")
            dc = DeploymentConfig(name=name, type="vf-c15-shell",
                                  config={"locations": [f"{name}-r{i}" for i in range(d["nloc"])], "slots": d["slots"],
                                          "mount": base, "roots": os.path.join(P, "roots", name),
                                          "fail_mkdir": bad if fault and fault["kind"] == "run" else []},
                                  external=False, lazy=False,
                                  workdir=posixpath.join(base, "dwd") if d["dep_workdir"] else None)
        dcs[name], dinfo[name] = dc, dict(d, base=base)
    deploy_steps = {n: wf.create_step(cls=DeployStep, name=posixpath.join("__deploy__", n), deployment_config=dc)
                    for n, dc in dcs.items()}

    seen = {}        # job name -> record made when its JobToken was put
    alive = set()    # jobs whose token was put and that the completer has not completed yet
    peak = {"n": 0}
    fault_seen = {"n": 0}
    completers = []
    problems = []    # (mechanism, what, extra)

    def host_path(dep, loc_name, path):
        conn = ctx.deployment_manager.get_connector(dep)
        return conn.host_path(loc_name, path) if hasattr(conn, "host_path") else path

    # ---- job life-cycle driven by the harness -----------------------------------------
    # Jobs stay alive (FIREABLE/RUNNING) until more than `hold` are alive, then a random one is
    # completed; `hold` never exceeds what the smallest deployment can host minus one, so a new
    # job always fits somewhere.  A stall guard completes one job if nothing happened for a while.
    caps = []
    for d in case["deployments"]:
        if d["kind"] == "local":
            continue
        lmax = max([t["locations"] for s in case["steps"] for t in s["targets"] if t["dep"] == d["name"]] or [1])
        caps.append(d["slots"] if lmax > 1 else d["nloc"] * d["slots"])
    hold = max(0, min([case.get("hold", 8)] + [c - 1 for c in caps]))
    last_event = {"t": 0.0}

    async def completer(name):
        for _ in range(crng.choice([0, 0, 1, 3, 10])):
            await asyncio.sleep(0)
        await ctx.scheduler.notify_status(name, Status.RUNNING)
        for _ in range(crng.randint(0, 5)):
            await asyncio.sleep(0)
        await ctx.scheduler.notify_status(name, Status.COMPLETED)

    def release_one():
        name = crng.choice(sorted(alive))
        alive.discard(name)
        completers.append(asyncio.create_task(completer(name)))

    async def stall_guard():
        import time

        while True:
            await asyncio.sleep(0.1)
            # a ScheduleStep that died after its job was allocated leaves the slot occupied for ever;
            # free it so that the other steps of the program can go on (the dead step is judged below)
            dead = {st.job_prefix for st in wf.steps.values()
                    if isinstance(st, ScheduleStep) and st.status in (Status.FAILED, Status.CANCELLED)}
            for jn, a in list(ctx.scheduler.job_allocations.items()):
                if a.status == Status.FIREABLE and jn not in seen and posixpath.dirname(jn) in dead:
                    sh.count("orphan_allocations_released")
                    await ctx.scheduler.notify_status(jn, Status.FAILED)
            if alive and time.time() - last_event["t"] > 2.0:
                sh.count("stall_guard_releases")
                release_one()
                last_event["t"] = time.time()

    def monitor(step_case, port):
        orig_put = port.put

        def put(token):
            if isinstance(token, JobToken):
                job = token.value
                sh.count("job_tokens_checked")
                alloc = ctx.scheduler.get_allocation(job.name)
                dep = alloc.target.deployment.name
                kind = dinfo[dep]["kind"]
                rec = {"step": step_case["name"], "deployment": dep, "locations": [l.name for l in alloc.locations],
                       "dirs": {}, "host": {}}
                sh.count({"shell": "jobs_on_shell_remote", "local": "jobs_on_local", "hw": "jobs_on_local"}[kind])
                if len(alloc.locations) > 1:
                    sh.count("jobs_multi_location")
                    if kind == "shell":
                        sh.count("jobs_multi_location_private_fs")
                sh.count("jobs_with_fixed_dir" if any(step_case["fixed"].values()) else "jobs_without_fixed_dir")
                hit = [l.name for l in alloc.locations if l.name in faulted.get(dep, ())]
                if hit:
                    # creation fails there: the token may only exist if the directories really do (judged below)
                    sh.count("job_tokens_with_faulted_location")
                    rec["faulted_locations"] = hit
                    fault_seen["n"] += 1
                for k, d in zip(KINDS, (job.input_directory, job.output_directory, job.tmp_directory)):
                    rec["dirs"][k] = d
                    rec["host"][k] = []
                    if not d:
                        problems.append((None, f"job {job.name}: {k} directory is {d!r} when the JobToken is emitted", rec))
                        continue
                    for loc in alloc.locations:
                        hp = host_path(dep, loc.name, d)
                        rec["host"][k].append(hp)
                        sh.count("dir_exists_checked")
                        if not os.path.isdir(hp):
                            problems.append((None, f"job {job.name}: {k} directory {d} does not exist on location "
                                                   f"{loc.name} of {dep} (host path {hp}) when the JobToken is emitted", rec))
                        sh.count("registration_checked")
                        if not ctx.data_manager.get_data_locations(d, loc.deployment, loc.name):
                            problems.append((None, f"job {job.name}: {k} directory {d} is not registered in the data "
                                                   f"manager for location {loc.name} of {dep}", rec))
                seen[job.name] = rec
                alive.add(job.name)
                peak["n"] = max(peak["n"], len(alive))
                last_event["t"] = time.time()
                while len(alive) > hold:
                    release_one()
            return orig_put(token)

        port.put = put

    expected_jobs = {}
    for s in case["steps"]:
        name = "/" + s["name"]
        in_port = wf.create_port()
        scat = wf.create_step(cls=ScatterStep, name=name + "-scatter")
        scat.add_input_port("x", in_port)
        scat_out = wf.create_port()
        scat.add_output_port("x", scat_out)
        targets = []
        for t in s["targets"]:
            info = dinfo[t["dep"]]
            pj = posixpath.join if info["kind"] == "shell" else os.path.join
            targets.append(Target(deployment=dcs[t["dep"]], locations=t["locations"],
                                  workdir=pj(info["base"], "twd-" + s["name"]) if t["own_workdir"] else None))
        first = dinfo[s["targets"][0]["dep"]]
        fx = {k: (posixpath.join(first["base"], "fixed", s["name"], k) if s["fixed"][k] else None) for k in KINDS}
        sched = wf.create_step(
            cls=ScheduleStep, name=posixpath.join(name, "__schedule__"), job_prefix=name,
            connector_ports={t["dep"]: deploy_steps[t["dep"]].get_output_port() for t in s["targets"]},
            binding_config=BindingConfig(targets=targets),
            input_directory=fx["input"], output_directory=fx["output"], tmp_directory=fx["tmp"])
        sched.add_input_port("x", scat_out)
        monitor(dict(s, fixed_paths=fx), sched.get_output_port("__job__"))
        in_port.put(ListToken([Token(i) for i in range(s["njobs"])], tag="0"))
        in_port.put(TerminationToken())
        for i in range(s["njobs"]):
            expected_jobs[posixpath.join(name, f"0.{i}")] = s

    outcome = "ok"
    try:
        await wf.save(ctx.database)
        steps = [asyncio.create_task(st.run()) for st in wf.steps.values()]
        last_event["t"] = time.time()
        guard = asyncio.create_task(stall_guard())
        try:
            wall = sh.pick(300, 900)
            if deadline is not None:  # a program still running 15 s after the shard's budget is cut short
                wall = min(wall, max(15.0, deadline - time.time() + 15.0))
            await perturb.run_quiescent(asyncio.gather(*steps), wall_timeout=wall)
        except perturb.Deadlock as e:
            outcome = "deadlock"
            sh.inconclusive_because(f"program quiescent before its steps ended: {str(e.stacks)[:800]}")
        except perturb.WallTimeout as e:
            if deadline is not None and time.time() > deadline:
                # out of budget: the jobs emitted so far were judged one by one; the program as a whole
                # is not counted as a case and the end-of-program checks run on what was seen
                outcome = "truncated"
                sh.count("programs_truncated_by_budget")
            else:
                outcome = "timeout"
                sh.inconclusive_because(f"program hit the wall-clock watchdog: {str(e)[:600]}")
        guard.cancel()
        while alive:
            release_one()
        if completers:
            await asyncio.wait(completers, timeout=120)
        # ---- end-of-program oracle --------------------------------------------------
        if outcome in ("ok", "truncated"):
            for jn, s in (expected_jobs.items() if outcome == "ok" else ()):
                a = ctx.scheduler.job_allocations.get(jn)
                bad_locs = [l.name for l in a.locations if l.name in faulted.get(a.target.deployment.name, ())] if a else []
                if a is not None and bad_locs:
                    first_ok = a.locations[0].name not in bad_locs
                    fault_seen["n"] += 1 if jn not in seen else 0
                    sh.count("fault_jobs_nonfirst_only" if first_ok else "fault_jobs_first_location")
                    if jn not in seen:
                        # directory creation failed on an allocated location and no JobToken was emitted:
                        # exactly what the statement allows
                        sh.count("fault_jobs_rejected_without_token")
                        continue
                if jn not in seen and jn in ctx.scheduler.job_allocations:
                    st = [x for x in wf.steps.values() if isinstance(x, ScheduleStep) and x.job_prefix == "/" + s["name"]][0]
                    problems.append((None, f"job {jn} was allocated by the scheduler but its ScheduleStep ended "
                                           f"({st.status.name}) without emitting a JobToken with directories", {"step": s["name"]}))
                elif jn not in seen:
                    sh.count("jobs_never_scheduled_recorded")
            owners = {}
            for jn, rec in seen.items():
                s = expected_jobs.get(jn)
                for k in KINDS:
                    if s is not None and s["fixed"][k]:
                        sh.count("fixed_dir_shared_allowed")
                        continue
                    for hp in rec["host"][k]:
                        owners.setdefault(os.path.realpath(hp), set()).add(jn)
            sh.count("injectivity_checked", len(owners))
            for hp, js in owners.items():
                if len(js) > 1:
                    js = sorted(js)
                    problems.append((None, f"directory {hp} is shared by jobs {js[:4]} although the step fixed none "
                                           f"for that role", {"jobs": js[:6], "records": [seen[j] for j in js[:2]]}))
                    break
    except Exception as e:
        sh.inconclusive_because("harness error: " + short_tb(e))
        outcome = "error"
    finally:
        for t in completers:
            if not t.done():
                t.cancel()
        try:
            await asyncio.wait_for(close_context(ctx), 60)
        except Exception:
            pass
        shutil.rmtree(P, ignore_errors=True)
    nontrivial = (peak["n"] >= 2 and any(not all(s["fixed"].values()) for s in case["steps"])) or fault_seen["n"] > 0
    sh.case(("prog", digest(case)), nontrivial=nontrivial and outcome == "ok")
    for mech, what, extra in problems[:5]:
        sh.violation(mech, what, dict(case, detail=extra, peak_alive=peak["n"]))
    return {"peak_alive": peak["n"], "jobs": len(seen), "outcome": outcome, "problems": len(problems)}


async def _main(sh: Shard):
    import logging
    import time

    import streamflow.main  # noqa: F401
    from vf.harness import c15_world

    logging.getLogger("streamflow").setLevel(logging.CRITICAL)
    sh.note("import_s", round(time.time() - sh.t0, 1))
    sh.note("isolated_fs", c15_world.unshare_available())
    deadline = time.time() + sh.plan["budget_s"]  # after the imports
    rng = sh.rng("prog", sh.shard)
    peaks = {}
    for n in range(sh.pick(40, 400)):
        if time.time() > deadline:
            sh.count("stopped_by_budget")
            break
        # alternate remote / host-only programs: remote ones cost one shell round trip per operation
        case = gen_case(rng, sh.quick(), remote=(n % 2 == 0))
        r = await run_case(sh, case, n, deadline=deadline)
        b = min(40, r["peak_alive"]) // 5 * 5
        peaks[b] = peaks.get(b, 0) + 1
        if r["outcome"] == "ok" and r["jobs"] >= 8 and sh.shard < 3:
            sh.sample({"program": case, "observed": r}, limit=1)
    sh.note("programs_s", round(time.time() - deadline + sh.plan["budget_s"], 1))
    sh.note("peak_concurrent_jobs_histogram(bucket=5)", {str(k): v for k, v in sorted(peaks.items())})


def run_shard(sh: Shard) -> None:
    asyncio.run(_main(sh))


def replay(sh: Shard, w: dict) -> None:
    import logging

    case = {k: w[k] for k in ("deployments", "steps", "jitter", "hold")}

    async def go():
        import streamflow.main  # noqa: F401

        logging.getLogger("streamflow").setLevel(logging.CRITICAL)
        for attempt in range(3):
            await run_case(sh, dict(case, jitter=case["jitter"] + attempt), attempt)
            if sh.violations:
                break

    asyncio.run(go())
