"""C31  Expression dependency analysis covers every input an expression reads.

Workload: generated CWL parameter references and ES5 JavaScript expressions / function bodies
(vf/harness/c31_gen.py) given to the real `streamflow.cwl.utils.resolve_dependencies`
(DependencyResolver + CWLDependencyListener over the antlr ECMAScript grammar).

Oracle: instrumented evaluation (vf/harness/c31_node.py).  Each `$(...)`/`${...}` segment is run by
node exactly as cwl_utils' sandbox would run it, with `inputs` replaced by a recording Proxy
(get / has / getOwnPropertyDescriptor record the key, ownKeys = enumeration = every key).
  * the recorded key set must be a subset of the static dependency set;
  * the analysis must not raise on an expression whose evaluation succeeded.
Expressions whose evaluation fails in node are not judged (counted).  A static set larger than
the recorded one is allowed by the property (recorded as `spurious`).

Refutations are classified only when an explicit syntactic predicate over the expression text and
the difference recognises one of the listed mechanisms; every key read through a construct the
analysis is supposed to handle (dot / bracket-literal access, tracked `y = inputs` aliases, closures,
shadowing, library functions, string literals, comments) is judged with no exemption.
"""
from __future__ import annotations

import contextlib
import io
import re

from vf.common import Shard, short_tb
from vf.harness import c31_gen as G
from vf.harness import c31_node as N

PROPERTY = "C31"
META = {
    "text": "For every generated parameter reference / ES5 expression that node evaluated successfully, the set of "
            "top-level `inputs` fields actually read (recorded by a Proxy) was contained in resolve_dependencies(...) "
            "and the analysis did not raise; misses caused by the listed constructs (var-declared aliases, `inputs` "
            "passed as an argument or enumerated, computed indices, ...) are reported as known findings.",
    "note": "Ground truth is one evaluation per expression on one fixed input object (reads on untaken branches are not "
            "observed); only generated ES5 constructs; top-level fields only.",
    "technique": "differential: static dependency set vs Proxy-instrumented evaluation in node",
}


def plan(tier):
    q = tier == "quick"
    return {
        "level": "exploration",
        "shards": 16,
        "budget_s": 45 if q else 540,
        "timeout_s": 600 if q else 3600,
        "min_nontrivial": 30 if q else 1000,
        "required_counters": ["node_evaluations", "subset_judged", "segmentation_crosschecked"],
        "rule": "seeded expressions: 22% parameter references (dot / single / double quoted, nested fields, interpolated "
                "with text and escaped \\$( ), 78% JavaScript $(expr) / ${body} assembled from 1..3 fragments (dot, bracket, "
                "whitespace, deep access, ternaries, typeof, closures, IIFEs, nested function declarations, parameters named "
                "inputs, tracked `y = inputs` aliases and alias chains, look-alike variables, string literals and comments "
                "mentioning inputs.z, expressionLib helpers); 42% of the JS expressions also contain one construct of a "
                "listed mechanism. Distinct = distinct (expression, full_js, lib); non-trivial = evaluation read >= 1 field.",
        "exhaustive": False,
        "assumptions": ["node v20 evaluating ES5 code is the reference for what an expression reads",
                        "one evaluation per expression on a fixed inputs object"],
    }


# ---------------------------------------------------------------------------------------------------
# cross-validation of the generator's segmentation with cwl_utils' scanner
# ---------------------------------------------------------------------------------------------------
def cwl_segments(scan: str) -> list[str]:
    from cwl_utils.expression import scanner

    scan = scan.strip()
    out = []
    w = scanner(scan)
    while w:
        if scan[w[0]] == "$":
            out.append(scan[w[0] + 1: w[1]])
        elif scan[w[0]] == "\\":
            e = scan[w[0]: w[1] + 1]
            if e in ("\\$(", "\\${"):
                w = (w[0], w[1] + 1)
        scan = scan[w[1]:]
        w = scanner(scan)
    return out


def own_segments(case) -> list[str]:
    return [("(" + s + ")") if k == "paren" else ("{" + s + "}") for k, s in case["segments"] if k != "text"]


# ---------------------------------------------------------------------------------------------------
# explicit predicates: expression text + missing key -> mechanism
# ---------------------------------------------------------------------------------------------------
def _key_access(base: str, key: str) -> str:
    k = re.escape(key)
    return rf"(?<![\w$.]){re.escape(base)}\s*(?:\.\s*{k}(?![\w$])|\[\s*(?:'{k}'|\"{k}\")\s*\])"


def js_skeleton(code: str):
    """JS source with comments removed and every string literal replaced by \x00<n>\x00; returns (skeleton, literals)."""
    out, lits, i = [], [], 0
    while i < len(code):
        ch = code[i]
        if code.startswith("/*", i):
            j = code.find("*/", i + 2)
            i = j + 2 if j >= 0 else len(code)
            out.append(" ")
        elif code.startswith("//", i):
            j = code.find("\n", i)
            i = j if j >= 0 else len(code)
        elif ch in "'\"":
            j = i + 1
            while j < len(code) and code[j] != ch:
                j += 2 if code[j] == "\\" else 1
            lits.append(code[i + 1: j])
            out.append(f"\x00{len(lits) - 1}\x00")
            i = j + 1
        else:
            out.append(ch)
            i += 1
    return "".join(out), lits


def _directly_read(case: dict, key: str) -> bool:
    """`inputs.key` / `inputs['key']` occurs as code (not in a string literal, a comment, text outside the
    $()/${} segments, or a function whose parameter is named inputs)."""
    for kind, js in case["segments"]:
        if kind == "text":
            continue
        sk, lits = js_skeleton(js)
        sk = re.sub(r"function \w+\(inputs\)\{[^{}]*\}", " ", sk)
        if re.search(rf"(?<![\w$.])inputs\s*\.\s*{re.escape(key)}(?![\w$])", sk):
            return True
        for m in re.finditer(r"(?<![\w$.])inputs\s*\[\s*\x00(\d+)\x00\s*\]", sk):
            if lits[int(m.group(1))] == key:
                return True
    return False


def classify_missing(case: dict, key: str, all_keys: bool):
    e = case["expr"]
    if "safe" in case["reads"].get(key, ["safe"]):
        return None  # the generator emitted a construct the analysis is expected to handle for this key
    if _directly_read(case, key):
        return None  # a plain `inputs.key` is in the code: nothing excuses missing it
    for m in re.finditer(r"var (\w+) = inputs;", e):
        if re.search(_key_access(m.group(1), key), e):
            return "C31/alias-var-declaration"
    for m in re.finditer(r"function \w+\(\)\{ var (\w+); \1 = inputs; return \1\.([\w$]+); \}", e):
        if m.group(2) == key:
            return "C31/alias-in-function-scope"
    if re.search(rf"\(inputs\)\.{re.escape(key)}(?![\w$])|\|\| inputs\)\.{re.escape(key)}(?![\w$])", e):
        return "C31/inputs-inside-compound-expression"
    for m in re.finditer(r"var (\w+); \1 = \1 \|\| inputs;", e):
        if re.search(_key_access(m.group(1), key), e):
            return "C31/inputs-inside-compound-expression"
    esc = {"c'd": r"inputs\['c\\'d'\]", "a": r"inputs\['\\u0061'\]", "b": r'inputs\["\\x62"\]'}
    if key in esc and re.search(esc[key], e):
        return "C31/escaped-literal-index"
    if re.search(rf"function (\w+)\(o\)\{{return o\.{re.escape(key)};\}}.*\1\(inputs\)", e, flags=re.S) \
            or re.search(rf"\(function\(o\)\{{return o\.{re.escape(key)};\}}\)\(inputs\)", e) \
            or re.search(rf"pick_key\(inputs, (['\"]){re.escape(key)}\1\)", e):
        return "C31/inputs-passed-as-argument"
    if all_keys and (re.search(r"Object\.keys\(inputs\)|JSON\.stringify\(inputs\)|for \(var \w+ in inputs\)", e)
                     or re.fullmatch(r"\s*\$\(inputs\)\s*", e)):
        return "C31/enumeration"
    return None


def classify_raise(case: dict, exc: BaseException):
    e = case["expr"]
    if isinstance(exc, AttributeError) and re.search(r"has no attribute '(literal|strip)'", str(exc)):
        # an index that is not a plain string literal directly on `inputs`
        if re.search(r"""inputs\[(?!\s*(?:'[^'\\\]]*'|"[^"\\\]]*")\s*\])""", e):
            return "C31/computed-index-raises"
    if isinstance(exc, KeyError):
        m = re.search(r"var (\w+), (\w+) = \{\}; \1 = inputs; function \w+\(\)\{ \1 = \2; return 1; \}", e)
        if m and exc.args and exc.args[0] == m.group(1):
            return "C31/alias-reassigned-in-function-raises"
    return None


# ---------------------------------------------------------------------------------------------------
def judge(sh: Shard, case: dict, res: dict) -> None:
    from streamflow.cwl.utils import resolve_dependencies

    lib = G.LIB if case["lib"] else None
    sh.count("node_evaluations")
    if not res["ok"]:
        sh.count("evaluation_failed_not_judged")
        sh.case(("evalfail", case["expr"]), nontrivial=False)
        return
    actual = set(G.ALL_KEYS) if res["all"] else set(res["reads"])
    sh.case((case["expr"], case["full_js"], case["lib"]), nontrivial=bool(actual))
    err = io.StringIO()
    sh.count("analysis_calls")
    try:
        with contextlib.redirect_stderr(err):
            deps = set(resolve_dependencies(case["expr"], full_js=case["full_js"], expression_lib=lib))
    except Exception as e:
        mech = classify_raise(case, e)
        sh.count("analysis_raised")
        sh.violation(mech, f"resolve_dependencies raised {type(e).__name__}: {str(e)[:200]} on an expression that "
                           f"evaluates successfully: {case['expr']!r}", dict(case, raised=type(e).__name__, tb=short_tb(e, 4)))
        return
    if err.getvalue():
        sh.count("antlr_syntax_messages(recorded)")
    sh.count("subset_judged")
    if actual and not set(case["tags"]) & set(G.MECHANISMS):
        sh.count("judged_without_any_listed_construct")
    missing = actual - deps
    if deps - actual:
        sh.count("spurious_dependencies(recorded)", len(deps - actual))
    if deps - set(G.ALL_KEYS):
        sh.count("dependencies_that_are_not_inputs(recorded)", len(deps - set(G.ALL_KEYS)))
    if not missing:
        return
    by_mech: dict = {}
    for k in sorted(missing):
        by_mech.setdefault(classify_missing(case, k, res["all"]), []).append(k)
    for mech, keys in by_mech.items():
        sh.violation(mech, f"evaluation of {case['expr']!r} read inputs field(s) {keys} that are not in "
                           f"resolve_dependencies(...) = {sorted(deps)}",
                     dict(case, missing=keys, deps=sorted(deps), recorded=sorted(actual) if not res["all"] else "ALL"))


def evaluate_batch(sh: Shard, cases: list[dict]) -> list[dict]:
    lib_src = "\n".join(G.LIB)
    return N.evaluate(sh.scratch, G.dumps_base(),
                      [{"js": G.to_js_fragments(c["segments"]), "lib": lib_src if c["lib"] else ""} for c in cases])


def run_shard(sh: Shard) -> None:
    import time

    from streamflow.cwl.utils import resolve_dependencies

    # warm-up (module imports, antlr ATN deserialisation) is not part of the case budget
    resolve_dependencies("${return inputs.a;}", full_js=True)
    deadline = time.time() + sh.plan["budget_s"]
    out_of_budget = lambda: (not sh.replaying) and time.time() > deadline  # noqa: E731
    rng = sh.rng("expr", sh.shard)
    seen = set()
    tag_hist: dict = {}
    total = sh.pick(700, 9000)
    batch = sh.pick(60, 300)
    done = 0
    # fixed regression corpus first (shard 0): hand-written forms of every quantified construct
    if sh.shard == 0:
        corpus = [fixed_case(e, fj) for e, fj in FIXED] + [fixed_case(e, True, True) for e in FIXED_LIB]
        for c, r in zip(corpus, evaluate_batch(sh, corpus)):
            sh.count("segmentation_crosschecked")
            judge(sh, c, r)
            sh.count("fixed_corpus")
    while done < total and not out_of_budget():
        cases = []
        while len(cases) < batch:
            c = G.gen_case(rng)
            if (c["expr"], c["full_js"], c["lib"]) in seen:
                continue
            seen.add((c["expr"], c["full_js"], c["lib"]))
            try:
                ok = cwl_segments(c["expr"]) == own_segments(c)
            except Exception as e:
                ok = False
            sh.count("segmentation_crosschecked")
            if not ok:
                sh.inconclusive_because(f"generator segmentation disagrees with cwl_utils scanner on {c['expr']!r}")
                continue
            cases.append(c)
        try:
            results = evaluate_batch(sh, cases)
        except Exception as e:
            sh.inconclusive_because("node batch failed: " + str(e)[:500])
            return
        for c, r in zip(cases, results):
            if out_of_budget():
                break
            judge(sh, c, r)
            done += 1
            for t in c["tags"]:
                tag_hist[t] = tag_hist.get(t, 0) + 1
            if r["ok"] and len(sh.samples) < 2 and len(c["expr"]) < 200 and c["tags"] == ["safe"] and r["reads"]:
                sh.sample({"expr": c["expr"], "recorded_reads": r["reads"], "full_js": c["full_js"]})
    sh.note("construct_histogram", tag_hist)


# hand-written expressions (one per quantified construct); judged like generated ones
FIXED = [
    ("$(inputs.a)", False), ("$(inputs.a.x)", False), ("$(inputs['c d'])", False), ('$(inputs["a"])', False),
    ("$(inputs.arr[0])", False), ("$(inputs.length)", False), ("$(inputs['c\\'d'])", False), ("pre $(inputs.a) mid $(inputs['b']) post", False),
    ("\\$(inputs.z) $(inputs.a)", False), ("$(inputs.a)$(inputs.b)", True), ("$(inputs.a + inputs['b'])", True),
    ("${return inputs.a + inputs['k'];}", True), ("${var x = inputs.a; return x;}", True),
    ("${var y; y = inputs; return y.a;}", True), ("${var y, w; y = inputs; w = y; return w['b'];}", True),
    ("${function f(inputs){return inputs.shadow;} return f({shadow:1}) + inputs.a;}", True),
    ("${var s = 'inputs.z is text'; return inputs.a;}", True), ("${/* inputs.z */ return inputs.a; // inputs.z\n}", True),
    ("${return (function(){return inputs.a;})();}", True), ("${function f(x){ function g(){ return inputs.a; } return g() + x; } return f(inputs.b);}", True),
    ("${var inputs2 = {a:1}; return inputs2.a + inputs.b;}", True), ("${if (inputs.a) {return inputs.b;} return inputs['z'];}", True),
    ("${ function pick(l){ var n = l.map(function(inputs){return inputs.name;}); return n.concat(inputs.b);} return pick(inputs.arr); }", True),
    ("${var y; y = inputs; function pk(l){ var q = l.map(function(y){return y.nm;}); return q.concat([y.k, inputs['z']]); } return pk(inputs.arr);}", True),
    ("${return inputs .a + inputs\n.b + inputs [ 'k' ];}", True), ("${return inputs.arr.map(function(e){return e + inputs.b;});}", True),
]


FIXED_LIB = ["$(getx1())", "$(add1(inputs.b))", "${return twice(inputs['k'])[0] + lib_shadow({libshadow: 1});}"]


def fixed_case(expr, full_js, lib=False):
    segs = []
    for s in cwl_segments(expr):
        segs.append(["paren", s[1:-1]] if s[0] == "(" else ["brace", s[1:-1]])
    return {"kind": "expr", "expr": expr, "full_js": full_js, "lib": lib, "segments": segs, "reads": {}, "tags": ["fixed"]}


def replay(sh: Shard, w: dict) -> None:
    case = {k: w[k] for k in ("kind", "expr", "full_js", "lib", "segments", "reads", "tags")}
    sh.count("segmentation_crosschecked")
    judge(sh, case, evaluate_batch(sh, [case])[0])
