"""C02  Combinators emit exactly the right combinations, whatever the arrival order.

Workload: seeded stream sets (0..4 tokens per port, tag depth 1..4, components up to 11 so that
0.1 / 0.10 / 0.11 occur, parent/child mixes across ports) fed to real combinator trees
 (a) through `Combinator.combine()` directly, in ALL arrival permutations when the stream set has
     at most 6 (thorough: 7) tokens and in seeded permutations beyond, and
 (b) through a real `CombinatorStep.run` (tokens persisted in a make_context database whose
     coroutines are jittered, termination tokens injected at seeded positions, arrival either
     paced one token at a time -- the exact permutation -- or in bursts so that the step's own
     `asyncio.wait` picks the order; the order actually seen by the combinator is recorded).

Oracles (both observe only what the real classes emitted):
 1. reference multiset `vf.models.c02_combinators.denote` written from the statement;
 2. permutation invariance: every arrival order of one stream set gives the same multiset.

Domain: the reference judges stream sets in which every port has tags of one depth, distinct and
rooted at "0" (depths may differ *across* ports).  Stream sets outside it (a port mixing depths
or repeating a tag, an outer combinator over an inner cartesian result whose members carry
different tags) are run too, but only *recorded* (ood_* notes), never judged.
"""
from __future__ import annotations

import asyncio
import collections
import itertools
import os
import shutil
import traceback

from vf.common import Shard, short_tb
from vf.models import c02_combinators as M

PROPERTY = "C02"
META = {
    "text": "Dot-product, cartesian-product and nested combinators (driven directly and inside a real "
            "CombinatorStep with persisted tokens) emit exactly the combinations the statement "
            "prescribes, with the prescribed tags, for every arrival order that was enumerated.",
    "note": "Judged only where the statement defines the result: per port one tag depth, distinct tags, "
            "rooted at 0. Loop combinators are covered by C06. Arrival orders are exhaustive only up "
            "to the stated token count; beyond it they are sampled.",
    "technique": "exhaustive arrival permutations + executable reference model + permutation invariance",
}

TREES = {
    "dot2": ["dot", "a", "b"],
    "dot3": ["dot", "a", "b", "c"],
    "cart1": ["cart", 1, "a", "b"],
    "cart1_3": ["cart", 1, "a", "b", "c"],
    "cart2": ["cart", 2, "a", "b"],
    "dot_cart": ["dot", ["cart", 1, "a", "b"], "c"],
    "dot_cart_d": ["dot", ["cart", 1, "a", "b"], "c", "d"],
    "dot_dot": ["dot", ["dot", "a", "b"], "c"],
    "dot_dot_d": ["dot", ["dot", "a", "b"], "c", "d"],
    "nested_crossproduct": ["dot", ["cart", 2, "a", "b"]],
    "dot_cart2": ["dot", ["cart", 2, "a", "b"], "c"],
    "cart_dot": ["cart", 1, ["dot", "a", "b"], "c"],
}
TREE_WEIGHTS = {"cart_dot": 0.4}
COMPS = [0, 1, 2, 3, 9, 10, 11]
KF_LATE = "C02/cartesian-late-parent-broadcast"
KF_NESTED = "C02/cartesian-over-inner-combinator"


def plan(tier):
    q = tier == "quick"
    return {
        "level": "exploration",
        "shards": 16,
        "budget_s": 75 if q else 900,
        "timeout_s": 600 if q else 3600,
        "min_nontrivial": 20000 if q else 250000,
        "required_counters": ["oracle_reference_direct", "oracle_reference_step", "oracle_invariance",
                              "token_values_shape", "exhaustive_stream_sets", "step_runs"],
        "rule": "a case = (combinator tree, stream set, arrival order, driver); stream sets are seeded "
                "(shared tag pool so tags match across ports, components up to 11); every permutation "
                f"of the tokens for total <= {6 if q else 7}, seeded permutations beyond; non-trivial = the "
                "reference expects at least one combination and there are >= 2 tokens; distinct = "
                "distinct (tree, streams, order, driver).",
        "exhaustive": True,
        "assumptions": ["per port: one tag depth, distinct tags, rooted at '0' (what ScatterStep, loop "
                        "combinators and transformers produce); other stream sets are recorded, not judged"],
    }


# ----------------------------------------------------------------------------- generation
def gen_streams(rng, tree):
    ports = M.leaves(tree)
    base = rng.choice(["0", "0", "0", "0.3", "0.10"])
    l1 = rng.sample(COMPS, rng.randint(1, 3))
    if rng.random() < 0.5 and 1 in l1 and 10 not in l1:
        l1.append(10)
    pool = {0: [base], 1: [f"{base}.{c}" for c in l1], 2: []}
    for c in l1:
        for e in rng.sample(COMPS, rng.randint(1, 2)):
            pool[2].append(f"{base}.{c}.{e}")
    mode = rng.choice(["equal", "equal", "mixed", "mixed", "mixed", "ood"])
    inner = [p for it in M.items_of(tree) if not isinstance(it, str) for p in M.leaves(it)]
    eq_depth = rng.choice([1, 1, 2])
    streams = {}
    for p in ports:
        if mode == "equal":
            d = eq_depth if (p in inner or not inner) else rng.choice([0, 0, eq_depth])
        else:
            d = rng.randint(0, 2)
        cand = pool[d]
        tags = rng.sample(cand, min(len(cand), rng.randint(0, 4)))
        streams[p] = [[t, f"{p}@{t}"] for t in tags]
    if mode == "ood":
        p = rng.choice(ports)
        extra = rng.choice(pool[rng.randint(0, 2)])
        streams[p].insert(rng.randint(0, len(streams[p])), [extra, f"{p}@{extra}#x"])
    # keep most sets small enough for exhaustive permutation
    while sum(len(s) for s in streams.values()) > 6 and rng.random() < 0.85:
        p = max(streams, key=lambda q: len(streams[q]))
        streams[p].pop(rng.randrange(len(streams[p])))
    return streams, mode


def pick_tree(rng):
    names = list(TREES)
    return rng.choices(names, weights=[TREE_WEIGHTS.get(n, 1.0) for n in names])[0]


def events_of(streams):
    return [[p, i] for p in sorted(streams) for i in range(len(streams[p]))]


def has_big_component(streams):
    return any(int(c) >= 10 for s in streams.values() for t, _ in s for c in t.split("."))


# ----------------------------------------------------------------------------- real objects
def build(tree, workflow, prefix="c", counter=None):
    from streamflow.workflow.combinator import CartesianProductCombinator, DotProductCombinator

    counter = counter if counter is not None else [0]
    counter[0] += 1
    name = f"{prefix}{counter[0]}"
    if tree[0] == "dot":
        c = DotProductCombinator(name, workflow)
    else:
        c = CartesianProductCombinator(name, workflow, depth=int(tree[1]))
    for it in M.items_of(tree):
        if isinstance(it, str):
            c.add_item(it)
        else:
            i = build(it, workflow, prefix, counter)
            c.add_combinator(i, i.get_items(recursive=True))
    return c


def shape_problem(comb):
    """Invariant on Combinator._token_values: tag -> item -> sequence of Token | schema dict."""
    from streamflow.core.workflow import Token

    tv = comb._token_values
    if not isinstance(tv, dict):
        return f"{comb.name}: _token_values is {type(tv).__name__}"
    for tag, per in tv.items():
        if not isinstance(tag, str) or not all(c.isdigit() for c in tag.split(".") if tag != ""):
            return f"{comb.name}: key {tag!r} is not a tag"
        if not isinstance(per, dict):
            return f"{comb.name}: _token_values[{tag!r}] is {type(per).__name__}"
        for item, seq in per.items():
            if item not in comb.items:
                return f"{comb.name}: item {item!r} under tag {tag!r} is not an item of the combinator"
            for e in seq:
                if isinstance(e, Token):
                    continue
                if isinstance(e, dict) and e and all(
                    isinstance(v, dict) and isinstance(v.get("token"), Token) and "input_ids" in v for v in e.values()
                ):
                    continue
                return f"{comb.name}: entry {e!r:.80} under {tag!r}/{item!r} is neither a Token nor a schema"
    for inner in comb.combinators.values():
        p = shape_problem(inner)
        if p:
            return p
    return None


def err_info(e):
    tb = traceback.extract_tb(e.__traceback__)
    last = tb[-1] if tb else None
    return {
        "type": type(e).__name__,
        "msg": str(e)[:200],
        "file": (last.filename.split("streamflow/")[-1] if last else None),
        "func": (last.name if last else None),
        "tb": short_tb(e, 6)[-1200:],
    }


async def run_direct(sh, tree, streams, order):
    from streamflow.core.workflow import Token

    comb = build(tree, None)
    out = collections.Counter()
    shape = None
    try:
        for p, i in order:
            tg, v = streams[p][i]
            async for schema in comb.combine(p, Token(value=v, tag=tg)):
                out[tuple(sorted((k, s["token"].tag, s["token"].value) for k, s in schema.items()))] += 1
            sh.count("token_values_shape")
            shape = shape or shape_problem(comb)
    except Exception as e:  # the combinator raised: observed outcome, judged below
        return out, err_info(e), shape
    return out, None, shape


class StepHarness:
    """One real StreamFlowContext per shard, renewed now and then to bound the in-memory database."""

    def __init__(self, sh):
        self.sh = sh
        self.ctx = None
        self.n = 0
        self.dir = os.path.join(sh.scratch, "c02ctx")

    async def get(self):
        from vf.harness.ctx import close_context, make_context

        if self.ctx is not None and self.n % 150 == 0:
            await close_context(self.ctx)
            self.ctx = None
        if self.ctx is None:
            shutil.rmtree(self.dir, ignore_errors=True)
            self.ctx = make_context(self.dir, db="vf-jitter")
        self.n += 1
        return self.ctx

    async def close(self):
        from vf.harness.ctx import close_context

        if self.ctx is not None:
            await close_context(self.ctx)
            self.ctx = None
        shutil.rmtree(self.dir, ignore_errors=True)


async def run_step(sh, harness, case):
    """Feed the stream set to a real CombinatorStep.  Returns (multiset, arrival, err, problems)."""
    from streamflow.core.workflow import Token, Workflow
    from streamflow.workflow.step import CombinatorStep
    from streamflow.workflow.token import TerminationToken
    from vf.perturb import Deadlock, Sched, WallTimeout, run_quiescent

    tree, streams, order = case["tree"], case["streams"], case["order"]
    rng = sh.rng("step-sched", case["sched"])
    Sched.reset(case["sched"], K=3)
    ctx = await harness.get()
    wf = Workflow(context=ctx, config={}, name=f"c02-{harness.n}")
    ports = M.leaves(tree)
    ins = {p: wf.create_port() for p in ports}
    outs = {p: wf.create_port() for p in ports}
    comb = build(tree, wf, prefix=f"w{harness.n}c")
    step = wf.create_step(cls=CombinatorStep, name="/comb", combinator=comb)
    for p in ports:
        step.add_input_port(p, ins[p])
        step.add_output_port(p, outs[p])
    await wf.save(ctx.database)

    arrival = []
    orig_combine = comb.combine

    def traced(port_name, token):
        arrival.append([port_name, token.tag])
        return orig_combine(port_name, token)

    comb.combine = traced
    calls = {p: 0 for p in ports}
    ev = asyncio.Event()
    state = {"done": False, "err": None}

    def wrap_get(p):
        orig = ins[p].get

        async def g(consumer):
            calls[p] += 1
            ev.set()
            return await orig(consumer)

        ins[p].get = g

    for p in ports:
        wrap_get(p)

    async def runner():
        try:
            await step.run()
        except Exception as e:
            state["err"] = err_info(e)
        finally:
            state["done"] = True
            ev.set()

    # event list: data tokens in `order`, each port's termination somewhere after its last token
    evs = [("tok", p, i) for p, i in order]
    for p in ports:
        last = max([k for k, e in enumerate(evs) if e[0] == "tok" and e[1] == p], default=-1)
        evs.insert(rng.randint(last + 1, len(evs)), ("term", p, None))
    paced = case["pace"] == "paced"

    async def feeder():
        sent = {p: 0 for p in ports}
        toks = {}
        if not paced:  # burst: everything is persisted first, so that puts need no await in between
            for kind, p, i in evs:
                if kind == "tok":
                    toks[(p, i)] = Token(value=streams[p][i][1], tag=streams[p][i][0])
                    await toks[(p, i)].save(ctx.database, port_id=ins[p].persistent_id)
        task = asyncio.create_task(runner())
        burst = 0
        for kind, p, i in evs:
            if state["done"]:
                break
            if kind == "tok":
                if paced:
                    tg, v = streams[p][i]
                    t = Token(value=v, tag=tg)
                    await t.save(ctx.database, port_id=ins[p].persistent_id)
                else:
                    t = toks[(p, i)]
                ins[p].put(t)
                sent[p] += 1
                if paced:
                    while calls[p] < sent[p] + 1 and not state["done"]:
                        ev.clear()
                        await ev.wait()
            else:
                ins[p].put(TerminationToken())
            if not paced:
                # several tokens become available at once: the step's asyncio.wait returns several
                # finished gets and the (seeded) iteration order of that set decides the arrival order
                if burst <= 0:
                    for _ in range(rng.randrange(0, 4)):
                        await asyncio.sleep(0)
                    burst = rng.randrange(0, 4)
                else:
                    burst -= 1
        await task

    problems = []
    try:
        await run_quiescent(feeder(), wall_timeout=sh.pick(60, 300))
    except Deadlock as d:
        problems.append(("deadlock", f"CombinatorStep.run never finished: loop quiescent; {str(d.stacks)[:600]}"))
    except WallTimeout as w:
        sh.inconclusive_because(f"C02 step run hit the wall-clock watchdog: {str(w)[:300]}")
        return None, arrival, None, [("walltimeout", "")]
    sh.count("step_runs")
    # observe the output ports
    seqs = {p: list(outs[p].token_list) for p in ports}
    data = {}
    for p, seq in seqs.items():
        terms = [k for k, t in enumerate(seq) if isinstance(t, TerminationToken)]
        if state["err"] is None and not problems:
            if len(terms) != 1 or terms[0] != len(seq) - 1:
                problems.append(("termination", f"output port {p}: termination tokens at {terms} of {len(seq)} tokens"))
        data[p] = [t for t in seq if not isinstance(t, TerminationToken)]
    n = {len(v) for v in data.values()}
    got = collections.Counter()
    if len(n) > 1 and state["err"] is None:
        problems.append(("ragged", f"output ports received different numbers of tokens: { {p: len(v) for p, v in data.items()} }"))
    for k in range(min(n) if n else 0):
        got[tuple(sorted((p, data[p][k].tag, data[p][k].value) for p in ports))] += 1
    sh.count("token_values_shape")
    sp = shape_problem(comb)
    if sp:
        problems.append(("shape", sp))
    return got, arrival, state["err"], problems


# ----------------------------------------------------------------------------- judging
def reference(tree, streams):
    try:
        return M.denote(tree, streams), None
    except M.OutOfDomain as e:
        return None, str(e)


def classify(tree, streams, exp, got, err, arrival):
    """Explicit predicates for the listed mechanisms; anything else stays None."""
    if err is not None:
        if (M.has_cart_over_combinator(tree) and (err["file"] or "").endswith("workflow/combinator.py")
                and ((err["type"] == "AttributeError" and "'dict' object has no attribute 'tag'" in err["msg"]
                      and err["func"] in ("_product", "_add_to_port", "<listcomp>"))
                     or (err["type"] == "KeyError" and err["func"] == "_product"))):
            return KF_NESTED
        return None
    if (exp is not None and not isinstance(tree, str) and tree[0] == "cart"
            and any(not isinstance(i, str) for i in tree[2:]) and sum(got.values()) == 0 and sum(exp.values()) > 0):
        # the root cartesian product has an inner combinator as an item and emitted nothing at all
        return KF_NESTED
    if (exp is not None and M.mixed_root_cart(tree, streams) and got != exp
            and all(got[c] <= exp[c] for c in got) and not M.ancestors_first(tree, arrival)):
        return KF_LATE
    return None


def judge(sh, case, exp, got, err, arrival, problems, driver):
    """One execution against the reference.  Returns True when the outcome equals the reference."""
    tree, streams = case["tree"], case["streams"]
    sh.count(f"oracle_reference_{driver}")
    w = dict(case, driver=driver, arrival=arrival)
    for kind, what in problems or []:
        if kind != "walltimeout":
            sh.violation(None, f"{M.tree_name(tree)} [{driver}] {kind}: {what}", dict(w, problem=kind))
    if err is not None:
        mech = classify(tree, streams, exp, got, err, arrival)
        sh.violation(mech, f"{M.tree_name(tree)} [{driver}] raised {err['type']}: {err['msg']} in {err['func']} "
                           f"(reference expects {sum(exp.values()) if exp is not None else '?'} combinations)",
                     dict(w, error=err, expected=M.show(exp) if exp is not None else None))
        return False
    if got != exp:
        mech = classify(tree, streams, exp, got, err, arrival)
        missing = M.show(exp - got)
        extra = M.show(got - exp)
        sh.violation(mech, f"{M.tree_name(tree)} [{driver}] emitted a different multiset than the reference for arrival "
                           f"{arrival}: missing {missing[:3]} extra {extra[:3]}",
                     dict(w, got=M.show(got), expected=M.show(exp)))
        return False
    return True


def arrival_of(streams, order):
    return [[p, streams[p][i][0]] for p, i in order]


async def direct_set(sh, tree_name, streams, mode, stats, max_exh, n_sampled):
    tree = TREES[tree_name]
    exp, ood = reference(tree, streams)
    evs = events_of(streams)
    total = len(evs)
    if total <= max_exh:
        orders = itertools.permutations(evs)
        exhaustive = True
    else:
        rng = sh.rng("perm", tree_name, streams)
        orders = (rng.sample(evs, total) for _ in range(n_sampled))
        exhaustive = False
    first = None
    results = set()
    n = 0
    for order in orders:
        order = [list(o) for o in order]
        got, err, shape = await run_direct(sh, tree, streams, order)
        n += 1
        case = {"kind": "direct", "tree_name": tree_name, "tree": tree, "streams": streams, "order": order}
        arrival = arrival_of(streams, order)
        frozen = (frozenset(got.items()), err["type"] if err else None)
        results.add(frozen)
        if shape:
            sh.violation(None, f"{M.tree_name(tree)} _token_values shape: {shape}", dict(case, problem="shape"))
        if exp is None:
            sh.case(("direct", tree_name, streams, order), nontrivial=False)
            continue
        nontrivial = total >= 2 and sum(exp.values()) > 0
        sh.case(("direct", tree_name, streams, order), nontrivial=nontrivial)
        judge(sh, case, exp, got, err, arrival, [], "direct")
        # independent metamorphic oracle: same outcome as the first arrival order of this stream set
        sh.count("oracle_invariance")
        mech = classify(tree, streams, exp, got, err, arrival) if (err is not None or got != exp) else None
        if first is None:
            first = (order, got, err, mech)
        elif (got, err["type"] if err else None) != (first[1], first[2]["type"] if first[2] else None):
            sh.violation(mech or first[3],
                         f"{M.tree_name(tree)} [direct] order dependence: arrival {arrival_of(streams, first[0])} emitted "
                         f"{M.show(first[1])[:3]}{' then raised ' + first[2]['type'] if first[2] else ''} but arrival {arrival} emitted "
                         f"{M.show(got)[:3]}{' then raised ' + err['type'] if err else ''}",
                         dict(case, other_order=first[0], problem="order-dependence"))
    if exp is None:
        stats["ood_sets"] += 1
        stats["ood_reasons"][ood.split(":")[-1].strip()[:50]] += 1
        if len(results) > 1:
            stats["ood_order_dependent_sets"] += 1
    else:
        stats["judged_sets"] += 1
        if exhaustive and total >= 2:
            sh.count("exhaustive_stream_sets")
        stats["perm_hist"][str(total)] += 1
        if M.mixed_root_cart(tree, streams):
            stats["mixed_depth_cart_sets"] += 1
        if has_big_component(streams):
            stats["sets_with_component_ge_10"] += 1
        if any(len({len(t.split(".")) for t, _ in s}) for s in streams.values()) and \
                len({len(t.split(".")) for s in streams.values() for t, _ in s}) > 1:
            stats["sets_with_parent_child_mix"] += 1
    stats["by_tree"][tree_name] += n
    return n


async def step_set(sh, harness, tree_name, streams, idx, stats, n_orders):
    tree = TREES[tree_name]
    exp, ood = reference(tree, streams)
    evs = events_of(streams)
    rng = sh.rng("step-orders", idx)
    first = None
    for k in range(n_orders):
        order = rng.sample(evs, len(evs))
        case = {"kind": "step", "tree_name": tree_name, "tree": tree, "streams": streams, "order": order,
                "pace": "paced" if k % 2 == 0 else "burst", "sched": rng.randrange(1 << 30)}
        got, arrival, err, problems = await run_step(sh, harness, case)
        if got is None:
            continue
        stats["step_arrivals"].add(str(arrival))
        if arrival != arrival_of(streams, order):
            stats["step_reordered_by_engine"] += 1
        if exp is None:
            sh.case(("step", tree_name, streams, arrival, case["pace"]), nontrivial=False)
            stats["ood_step_runs"] += 1
            if first is not None and first != got:
                stats["ood_step_order_dependent"] += 1
            first = got if first is None else first
            continue
        sh.case(("step", tree_name, streams, arrival, case["pace"]),
                nontrivial=len(evs) >= 2 and sum(exp.values()) > 0)
        judge(sh, case, exp, got, err, arrival, problems, "step")
        if k == 0 and sum(exp.values()) > 0:
            sh.sample({"kind": "step", "tree": M.tree_name(tree), "streams": streams, "arrival_seen_by_combinator": arrival,
                       "pace": case["pace"], "emitted": M.show(got)})
        stats["by_tree_step"][tree_name] += 1


def new_stats():
    return {"by_tree": collections.Counter(), "by_tree_step": collections.Counter(), "perm_hist": collections.Counter(),
            "ood_reasons": collections.Counter(), "ood_sets": 0, "ood_order_dependent_sets": 0, "judged_sets": 0,
            "mixed_depth_cart_sets": 0, "sets_with_component_ge_10": 0, "sets_with_parent_child_mix": 0,
            "step_arrivals": set(), "step_reordered_by_engine": 0, "ood_step_runs": 0, "ood_step_order_dependent": 0}


def run_shard(sh: Shard) -> None:
    asyncio.run(_run_shard(sh))


async def _run_shard(sh: Shard) -> None:
    import time

    import streamflow.main  # noqa: F401  warm-up: under load the first import takes many seconds
    import streamflow.workflow.combinator  # noqa: F401

    stats = new_stats()
    max_exh = sh.pick(6, 7)
    n_direct = sh.pick(300, 12000)  # stream sets per shard
    n_step = sh.pick(220, 6000)
    # (a) direct combine(), exhaustive permutations; bounded by count and by a share of what is left
    t_direct = time.time()
    share = sh.pick(20.0, 330.0)  # phase clocks start after the import warm-up
    i = done = 0
    while done < n_direct and (sh.replaying or time.time() - t_direct < share):
        idx = i * sh.nshards + sh.shard
        i += 1
        rng = sh.rng("direct", idx)
        tree_name = pick_tree(rng)
        streams, mode = gen_streams(rng, TREES[tree_name])
        await direct_set(sh, tree_name, streams, mode, stats, max_exh, sh.pick(60, 300))
        done += 1
        if done == 1:
            exp, _ = reference(TREES[tree_name], streams)
            sh.sample({"kind": "direct", "tree": M.tree_name(TREES[tree_name]), "streams": streams,
                       "orders": "all permutations" if len(events_of(streams)) <= max_exh else "seeded",
                       "reference": M.show(exp) if exp is not None else "out of domain"})
    stats["direct_sets"] = done
    stats["direct_s"] = round(time.time() - t_direct, 1)
    # (b) real CombinatorStep.run
    harness = StepHarness(sh)
    t_step = time.time()
    try:
        j = done2 = 0
        while done2 < n_step and (sh.replaying or time.time() - t_step < sh.pick(25.0, 420.0)):
            idx = j * sh.nshards + sh.shard
            j += 1
            rng = sh.rng("step", idx)
            tree_name = pick_tree(rng)
            streams, mode = gen_streams(rng, TREES[tree_name])
            await step_set(sh, harness, tree_name, streams, idx, stats, sh.pick(4, 6))
            done2 += 1
    finally:
        await harness.close()
    stats["step_sets"] = done2
    stats["step_s"] = round(time.time() - t_step, 1)
    stats["distinct_step_arrival_orders"] = len(stats.pop("step_arrivals"))
    sh.note("c02", {k: (dict(v) if isinstance(v, collections.Counter) else v) for k, v in stats.items()})


def replay(sh: Shard, w: dict) -> None:
    asyncio.run(_replay(sh, w))


async def _replay(sh, w):
    tree, streams, order = w["tree"], w["streams"], w["order"]
    exp, ood = reference(tree, streams)
    if w.get("kind") == "step":
        harness = StepHarness(sh)
        try:
            case = {k: w[k] for k in ("kind", "tree_name", "tree", "streams", "order", "pace", "sched") if k in w}
            got, arrival, err, problems = await run_step(sh, harness, case)
        finally:
            await harness.close()
        if got is None:
            return
        sh.case(("step", streams, arrival))
        if exp is not None:
            judge(sh, case, exp, got, err, arrival, problems, "step")
    else:
        got, err, shape = await run_direct(sh, tree, streams, order)
        case = {"kind": "direct", "tree": tree, "streams": streams, "order": order}
        sh.case(("direct", streams, order))
        if shape:
            sh.violation(None, f"_token_values shape: {shape}", dict(case, problem="shape"))
        if exp is not None:
            judge(sh, case, exp, got, err, arrival_of(streams, order), [], "direct")
            other = w.get("other_order")
            if other:
                got2, err2, _ = await run_direct(sh, tree, streams, other)
                if (got2, err2["type"] if err2 else None) != (got, err["type"] if err else None):
                    arr = arrival_of(streams, order)
                    mech = (classify(tree, streams, exp, got, err, arr) if (err is not None or got != exp) else None) or \
                           (classify(tree, streams, exp, got2, err2, arrival_of(streams, other))
                            if (err2 is not None or got2 != exp) else None)
                    sh.violation(mech, f"{M.tree_name(tree)} order dependence between {other} and {order}",
                                 dict(case, other_order=other, problem="order-dependence"))
