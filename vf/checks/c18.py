"""C18  Recovery re-runs only failed jobs and producers of lost data.

Same harness as C16 (own executions, own oracle).  Executions are counted by the harness command.

Oracle
 * soft and fail-stop/own fault sets (nothing upstream is lost) - EXACT: in a run that completed,
   every job of the program ran 1 + (injected execute-phase failures of that job) times; a job
   whose faults were in the schedule or transfer phase ran once; nothing else ran.
 * fault sets containing fail-stop/all - NECESSARY CONDITION from the statement: a job X that ran
   more often than 1 + its own failures (failing executions or recover() calls for it) must (a) be a provenance ancestor (program graph) of a job
   that failed, and (b) have had output files deleted by a logged loss before that re-execution
   started; and every job with an injected execute failure ran at least failures+1 times.
   Secondary failures (a sibling whose input vanished) count as failures of that sibling.
Runs that do not complete are C16's business: counted (`run_not_completed`), not judged here.
"""
from __future__ import annotations

import os

from vf.common import Shard

PROPERTY = "C18"
META = {
    "text": "In every completed run the per-job execution counts equalled the prediction 1 + own execute failures "
            "for soft / fail-stop(own) faults; with whole-directory loss every extra execution was of an ancestor of a "
            "failed job whose outputs had been logged as deleted before it re-ran.",
    "note": "Counts come from the harness command; the loss record lists the files that really existed when deleted.",
    "technique": "fault enumeration + exact execution-count prediction + loss-record necessary condition",
}
LIMIT = 40


def plan(tier):
    q = tier == "quick"
    return {
        "level": "fault_enumeration",
        "shards": 16,
        "budget_s": 45 if q else 500,
        "timeout_s": 420 if q else 2000,
        "min_nontrivial": 50 if q else 600,
        "required_counters": ["oracle_exact_counts", "oracle_necessary_condition", "jobs_checked",
                              "exact_two_deployments", "exact_pop_processor_outputs"],
        "rule": "case = (shape, fault set, seed); single faults over every (job, phase, soft|own, count 1..3) of shapes with "
                "parallel branches (scatter 3/5, diamond, scatter-diamond), pipelines and loops, multi-fault subsets, and "
                "fail-stop/all faults for the necessary condition. Non-trivial = a fault fired and the run completed.",
        "exhaustive": not q,
        "assumptions": ["retry limit 40"],
    }


def gen_cases(sh: Shard):
    from vf.harness import c16_cases as C
    from vf.harness import c16_recovery as R

    rng = sh.rng("cases")
    shapes = [C.pipeline(3), C.scatter(3), C.scatter(5), C.scatter(2, body=2), C.diamond(1, 2), C.diamond(2, 2, pre=False),
              C.loop(3), C.loop(2, pre=True, post=True), C.combo_scatter_diamond(2), C.combo_pipe_scatter_pipe(3),
              C.combo_diamond_scatter(2), C.scatter(12),
              # two deployments (a staged copy is a second PRIMARY replica; `own` wipes only the consumer's copy) and
              # outputs extracted through PopCommandOutputProcessor
              C.two_sites(3, (2,)), C.two_sites(3, (1, 2)), C.two_sites(4, (1, 3)), C.two_sites_scatter(3),
              C.with_pop(C.pipeline(3)), C.with_pop(C.scatter(3)), C.with_pop(C.diamond(1, 2))]
    if not sh.quick():
        shapes += [C.scatter(8, body=2), C.loop(5, body=2), C.combo_scatter_loop(3, 3), C.combo_loop_scatter(3, 2),
                   C.pipeline(5)]
    cases = []
    for sp in shapes:
        big = len(R.jobs_of(sp)) > 9
        singles = list(C.single_faults(sp, kinds=("soft", "own")))
        if big:
            singles = rng.sample(singles, 40)
        for f in singles:
            cases.append({"prog": sp, "faults": f, "mode": "exact"})
        for _ in range(sh.pick(12, 60)):
            cases.append({"prog": sp, "mode": "exact",
                          "faults": C.random_faults(rng, sp, rng.randint(2, 4), kinds=("soft", "own"))})
        alls = list(C.single_faults(sp, kinds=("all",), counts=(1, 2)))
        for f in rng.sample(alls, min(len(alls), sh.pick(10, 40))):
            cases.append({"prog": sp, "faults": f, "mode": "necessary"})
    rng.shuffle(cases)
    for c in cases:
        c["seed"] = rng.randrange(1 << 30)
    return cases


def run_case(sh: Shard, case: dict) -> None:
    from vf.harness import c16_cases as C
    from vf.harness import c16_recovery as R

    prog, faults, seed, mode = case["prog"], case["faults"], case["seed"], case["mode"]
    res = R.run_sync(prog, faults, os.path.join(sh.scratch, "case"), seed=seed, max_retries=LIMIT,
                     wall_timeout=sh.pick(90, 300))
    key = (prog["shape"], C.fault_key(faults), seed)
    completed = res.status == "ok" and res.outputs == [R.denote(prog)]
    sh.case(key, nontrivial=C.fired(res) > 0 and completed)
    if res.status == "walltimeout":
        sh.inconclusive_because(f"wall-clock watchdog on {key}")
        return
    if not completed:
        sh.count("run_not_completed")
        return
    jobs = R.jobs_of(prog)
    names = [j["job"] for j in jobs]
    counts = res.exec_counts()
    exec_faults = {f["job"]: f["count"] for f in faults if f["phase"] == "execute"}
    if len(sh.samples) < 2 and sh.shard in (3, 4) and C.fired(res):
        sh.sample({"shape": prog["shape"], "faults": faults, "mode": mode, "exec_counts": counts,
                   "losses": [(l["by"], l["kind"], l["producers"]) for l in res.losses][:6]})

    def bad(what):
        sh.violation(None, f"{what} [shape {prog['shape']} faults {C.fault_key(faults)}]",
                     C.compact(res, prog, faults, seed, {"mode": mode, "kind": "c18"}))

    stray = sorted(set(counts) - set(names))
    if stray:
        bad(f"jobs executed that the program does not contain: {stray}")
    if mode == "exact":
        sh.count("oracle_exact_counts")
        if prog.get("sites"):
            sh.count("exact_two_deployments")
        if prog.get("pop"):
            sh.count("exact_pop_processor_outputs")
        wrong = {}
        two_input = {j["job"] for j in jobs if len(j["deps"]) >= 2}
        own_dir_faults = {f["job"] for f in faults if f["kind"] == "own" and f["phase"] != "execute"}
        for j in names:
            want = 1 + exec_faults.get(j, 0)
            # a fail-stop(own) fault in the transfer/schedule phase of a TWO-input job deletes the job's
            # input directory, i.e. also the file the other transfer step had already staged: the command
            # then fails once for real (input missing) - that is a failure of the job itself
            genuine = sum(1 for e in res.execs.get(j, ()) if e["outcome"] == "genuine")
            if genuine and j in two_input and j in own_dir_faults:
                want += genuine
                sh.count("two_input_job_lost_staged_input")
            sh.count("jobs_checked")
            if counts.get(j, 0) != want:
                wrong[j] = {"ran": counts.get(j, 0), "predicted": want}
        if wrong:
            bad(f"execution counts differ from the prediction (1 + own execute failures; no data was lost): {wrong}")
        return
    # necessary condition (fail-stop/all)
    sh.count("oracle_necessary_condition")
    anc = R.ancestors(jobs)
    failed = set(res.recover_calls)  # every job for which recover() was called failed (injected or secondary)
    for j in names:
        sh.count("jobs_checked")
        execs = res.execs.get(j, [])
        # failures of the job itself: failing executions, and failures after the command returned (output
        # file deleted before the token was built) - every one of them goes through recover(job)
        own_fail = max(sum(1 for e in execs if e["outcome"] in ("injected", "genuine")),
                       len(res.recover_calls.get(j, ())))
        # failures of j in the schedule / transfer phase re-run the phase, not the command
        if exec_faults.get(j, 0) and len(execs) < exec_faults[j] + 1:
            bad(f"{j} failed {exec_faults[j]} times in the execute phase but ran only {len(execs)} times")
        extra = len(execs) - 1 - own_fail
        if extra <= 0:
            continue
        is_anc = any(j in anc.get(fj, ()) for fj in failed)
        loss_t = [l["t"] for l in res.losses if j in l["producers"]]
        # the re-executions that are not explained by own failures: each must start after a loss of j's outputs
        starts = [e["start"] for e in execs[1:]]
        if not is_anc:
            bad(f"{j} ran {len(execs)} times ({own_fail} own failures) but is not an ancestor of any failed job {sorted(failed)}")
        elif not loss_t:
            bad(f"{j} ran {len(execs)} times ({own_fail} own failures) although no deletion of its outputs was logged")
        elif min(loss_t) > max(starts):
            bad(f"{j} was re-executed before its outputs were lost (loss at t={min(loss_t)}, re-executions at {starts})")
        else:
            sh.count("reexecuted_ancestors_with_logged_loss")


def run_shard(sh: Shard) -> None:
    import time

    import vf.harness.c16_recovery  # noqa: F401

    t_start = time.time()
    cases = gen_cases(sh)
    done = 0
    for i, case in enumerate(cases):
        if not sh.mine(i):
            continue
        if (time.time() - t_start > sh.plan["budget_s"]) or sh.time_left() < -150:
            break
        run_case(sh, case)
        done += 1
    sh.note(f"shard{sh.shard}", {"planned": sum(1 for i in range(len(cases)) if sh.mine(i)), "done": done})


def replay(sh: Shard, w: dict) -> None:
    run_case(sh, {"prog": w["prog"], "faults": w["faults"], "seed": w["seed"], "mode": w.get("mode", "exact")})
