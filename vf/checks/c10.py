"""C10  The scheduler never over-allocates a location.

Workload: generated job histories (vf/harness/c10_sched.py) against the REAL DefaultScheduler:
concurrent schedule() requests and status notifications following the job lifecycle the engine can
emit, over 1..3 deployments x 1..3 locations with hardware (cores, memory, 1..3 mount points + '/')
or slots, 0..2 stacked wrapper levels with bind-mapped storages, multi-location targets, jitter in
get_available_locations; plus ALL histories of <= 5-7 events over <= 3 jobs on seven small
configurations.

Oracle: the shadow ledger (vf/models/c10_ledger.py), kept from boundary events only -- when schedule()
returns the harness reads which locations the JobAllocation names and charges the requirement IT
generated, translated per mount point and per stack level with its own mount table; when
notify_status() returns it applies the transition.  After every scheduler call and at every quiescent
point: for every location (every level) the sum over FIREABLE/RUNNING jobs must not exceed capacity in
cores, memory or any mount point; without hardware the number of such jobs must not exceed the slots.
`scheduler.hardware_locations` is compared with the ledger as a cross-check (reported, not judged).
"""
from __future__ import annotations

from vf.common import Shard

PROPERTY = "C10"
META = {
    "text": "On generated and bounded-exhaustive histories of schedule requests and status notifications, an "
            "independent ledger of what fireable/running jobs hold never exceeds any location's cores, memory, "
            "per-mount-point storage (all levels of stacked locations) or slots.",
    "note": "The ledger trusts the harness's own mount table and the JobAllocation's location list read when "
            "schedule() returns. A deployment's locations are all of one kind and share a mount table (as with "
            "every shipped connector); jobs keep their files within their reservation; quantities are integers or "
            "dyadic fractions so that sums are exact.",
    "technique": "shadow-ledger history checking of the real scheduler under schedule perturbation",
}

CLASSES = [("main", 8), ("shared_inner", 2), ("ool", 1)]


def plan(tier):
    q = tier == "quick"
    return {
        "level": "exploration",
        "shards": 16,
        "budget_s": 45 if q else 600,
        "timeout_s": 900 if q else 5400,
        "min_nontrivial": 1500 if q else 30000,
        "required_counters": ["c10_capacity_checks", "c10_checks_with_2plus_active", "grants", "releases",
                              "exhaustive_cases", "quiescent_points", "c14_contract_sub"],
        "rule": "bounded-exhaustive (never cut by the budget): every lifecycle history of <=5 events over 3 jobs on 7 small "
                "configurations (1 hw location; 1 hw location with mount-point-only contention; 1 slot; 2 slots; 2 hw locations "
                "with a 2-location target; 2 deployments with 2-target jobs; a wrapper over 1 hw location) quiescing after each "
                "event, <=4 events issued with no pause, 6 events over 2 jobs on two scopes (thorough: <=6 events everywhere, 7 "
                "events on three scopes, <=5 with two more paces); random: 2..8 (12 thorough) jobs, 1..3 deployments x 1..3 "
                "locations, wrapper levels 0..2, classes main/shared_inner/ool, each program run twice under different paces "
                "and jitter seeds. Non-trivial = at some checked point at least two jobs held resources or a request was "
                "waiting; distinct = distinct (class, configuration, jobs, history, pace).",
        "exhaustive": True,
        "assumptions": ["repeated notifications are issued sequentially (any status, FIREABLE included) and concurrently (two in-flight COMPLETED/FAILED calls)", "location names are unique across deployments", "a deployment's locations share one mount table",
                        "out-of-lifecycle histories are recorded, not judged"],
    }


class Observer:
    def __init__(self, sh: Shard, case):
        self.sh, self.case = sh, case
        self.judged = case.get("class") != "ool"
        self.violation = None
        self.max_active = 0
        self.saw_pending = False
        self.agree = self.disagree = 0

    def _check(self, run, where):
        self.sh.count("c10_capacity_checks")
        n = len(run.ledger.active_jobs())
        self.max_active = max(self.max_active, n)
        if n >= 2:
            self.sh.count("c10_checks_with_2plus_active")
        if run.pending:
            self.saw_pending = True
        over = run.ledger.over_allocations()
        if over and self.violation is None:
            self.violation = {"where": list(map(str, where)), "over": [[a, b, c, d] for a, b, c, d in over[:4]],
                              "ledger": run.ledger.snapshot(), "trace": [list(map(str, t)) for t in run.trace[-30:]]}

    def after_call(self, run, what):
        self._check(run, what)

    async def at_quiescence(self, run, tag):
        self._check(run, ("quiescent", tag))
        # cross-check (not judged): the scheduler's own account vs the ledger
        from vf.models.c14_hw import totals
        for ln, hw in run.sch.hardware_locations.items():
            if run.ledger.locs[ln]["cap"] is None:
                continue  # the scheduler's bookkeeping for locations without hardware is immaterial
            r = run.ledger.reserved(ln)
            ret = run.ledger.retained.get(ln, {})
            t = totals(hw)
            same = abs(hw.cores - r["cores"]) < 1e-9 and abs(hw.memory - r["memory"]) < 1e-9 and all(
                abs(t.get(mp, 0.0) - r["st"].get(mp, 0.0) - ret.get(mp, 0.0)) < 1e-9 for mp in set(t) | set(r["st"]) | set(ret))
            if same:
                self.agree += 1
            else:
                self.disagree += 1

    async def at_end(self, run):
        self._check(run, ("end",))

    def on_exception(self, run, what, exc):
        self.sh.count("scheduler_call_raised")

    def finish(self, run):
        from vf.harness import c10_sched as H

        sh = self.sh
        sh.count("hwloc_crosscheck_agree", self.agree)
        sh.count("hwloc_crosscheck_disagree", self.disagree)
        key = H.case_key(self.case)
        if not self.judged:
            sh.count("ool_runs_recorded")
            sh.count("ool_runs_ledger_over" if self.violation else "ool_runs_ledger_ok")
            sh.case(("ool", key), nontrivial=False)
            return
        sh.case((self.case.get("class"), key), nontrivial=self.max_active >= 2 or self.saw_pending)
        sh.count("max_active_%d" % min(self.max_active, 6))
        if self.violation:
            v = self.violation
            loc, res, got, cap = v["over"][0]
            sh.violation(classify(self.case, v), f"location {loc.split('-', 1)[-1]} over-allocated: {res} reserved {got} > capacity {cap} "
                         f"(active jobs {sorted(n for n, j in v['ledger']['jobs'].items() if j['status'] in ('FIREABLE', 'RUNNING'))})",
                         {"case": self.case, "observed": v})
        elif self.max_active >= 2 and run.stats["released"] >= 1:
            sh.sample(H.summarize(run))


def classify(case, v):
    """No C10 defect mechanism is known on the unchanged tree: every refutation is unclassified."""
    return None


def run_shard(sh: Shard) -> None:
    from vf.harness import c10_sched as H

    H.drive(sh, Observer, CLASSES, reps=2)


def replay(sh: Shard, w: dict) -> None:
    from vf.harness import c10_sched as H

    H.drive(sh, Observer, CLASSES, replay_case=w["case"])
