"""C03  Ports deliver every token to every consumer exactly once, in order.

Workload: histories of put / terminate / get / add_inter_port on the REAL `Port`,
`FilterTokenPort` and `InterWorkflowPort` classes: 1..4 consumers per port, consumers that first
read at a random point (late subscribers), gets issued as concurrent tasks that block until a
later put, loop yields at seeded points (so a get task starts before / after the puts around it),
boundary rules PROPAGATE / TERMINATE / both towards the port itself or another port (plain,
filtering or inter-workflow), tag lists with duplicates and with tags that never arrive, rules
added after matching tokens were already put (replay path).  Bounded-exhaustive: every operation
sequence of length <= 6/5/5/5 (quick) or 8/7/6/7 (thorough) over the plain / filter / inter-workflow /
late-rule alphabets (4 / 5 / 11 / 7 operations), each under two
yield policies; plus seeded random histories of 3..28 operations.

Oracle: `vf.models.c03_ports.Model` (a log per port, a cursor per consumer).  Every token carries
a unique id, so each consumer's received sequence is compared position by position with the log
(linear).  Also judged: a get returns (within a few loop turns) iff the log holds an undelivered
token for that consumer; after reading the whole log one more get blocks.

Boundary actions are judged under the literal reading of the statement (= the pinned behaviour): the
action applies to every data token put or replayed while the rule's remaining tag list is empty --
the completing token, every later token, rules created with an empty tag list, and late-attached
rules replaying the whole log from the completing token on.

Domain: only one kind of history is executed but *recorded* instead of judged (ood_* notes): a rule
targeting the port itself whose replay fires (the code re-puts already delivered tokens on the same
port; the engine installs such rules before injecting tokens -- DESIGN C03).
"""
from __future__ import annotations

import asyncio
import collections
import itertools

from vf.common import Shard, short_tb
from vf.models.c03_ports import Model

PROPERTY = "C03"
META = {
    "text": "Every consumer of a Port / FilterTokenPort / InterWorkflowPort received exactly the tokens the "
            "reference log prescribes, once and in put order (late subscribers and blocked concurrent gets "
            "included); boundary rules fired exactly on the completing token, on the right port, in every "
            "history that was enumerated or sampled.",
    "note": "The asyncio ready queue is FIFO and is not reordered; interleavings are varied through the points "
            "at which the harness yields to the loop. Histories outside the domain defined by the statement "
            "are recorded only. ConnectorPort/JobPort add no delivery logic of their own and are not driven.",
    "technique": "bounded-exhaustive + random operation histories against a log-and-cursor reference model",
}

SETTLE = 4


def plan(tier):
    q = tier == "quick"
    return {
        "level": "exploration",
        "shards": 16,
        "budget_s": 75 if q else 900,
        "timeout_s": 600 if q else 3600,
        "min_nontrivial": 20000 if q else 250000,
        "required_counters": ["oracle_consumer_sequence", "oracle_get_blocks_iff_empty", "late_subscribers_checked",
                              "boundary_actions_observed", "replay_rules_observed", "exhaustive_histories",
                              "random_histories", "post_completion_tokens_judged", "empty_tag_rule_firings_judged",
                              "late_rule_multi_token_replays_judged"],
        "rule": "a case = (port spec, operation history incl. yields); exhaustive over all operation sequences of "
                f"length <= {'6/5/5/5' if q else '8/7/6/7'} (plain/filter/inter-workflow/late-rule alphabets of 4/5/11/7 "
                "operations) under 2 "
                "yield policies, plus seeded random histories; "
                "non-trivial = at least one token was delivered to a consumer and the history is inside the "
                "judged domain; distinct = distinct (spec, history).",
        "exhaustive": True,
        "assumptions": ["one outstanding get per consumer name (what steps do)",
                        "a boundary action applies to every token put/replayed while the rule's tag list is empty "
                        "(literal reading = pinned behaviour)",
                        "a rule targeting the port itself whose replay fires is recorded, not judged"],
    }


# ----------------------------------------------------------------------------- real objects
class _WF:
    """Minimal stand-in for a Workflow: ports only keep a reference to it."""

    def __init__(self):
        self.ports = {}
        self.steps = {}
        self.context = None


def build_ports(spec):
    from streamflow.core.workflow import Port
    from streamflow.workflow.port import FilterTokenPort, InterWorkflowPort

    wf = _WF()
    ports = {}
    for name, s in spec.items():
        if s["kind"] == "plain":
            ports[name] = Port(wf, name)
        elif s["kind"] == "filter":
            allowed = frozenset(s.get("allowed", []))
            ports[name] = FilterTokenPort(wf, name, filter_function=lambda t, a=allowed: t.tag in a)
        else:
            ports[name] = InterWorkflowPort(wf, name)
        wf.ports[name] = ports[name]
    return ports


def norm(tok):
    from streamflow.workflow.token import TerminationToken

    if isinstance(tok, TerminationToken):
        return ["T", getattr(tok.value, "name", repr(tok.value))]
    return ["D", tok.value, tok.tag]


ACTIONS = None


def action_of(code):
    from streamflow.workflow.port import BoundaryAction

    a = BoundaryAction(0)
    if "P" in code:
        a |= BoundaryAction.PROPAGATE
    if "T" in code:
        a |= BoundaryAction.TERMINATE
    return a


async def settle(n=SETTLE):
    for _ in range(n):
        await asyncio.sleep(0)


class Run:
    """Executes one history on the real ports, in lock-step with the model."""

    def __init__(self, sh, case):
        self.sh = sh
        self.case = case
        self.model = Model(case["spec"])
        self.real = build_ports(case["spec"])
        self.recv = collections.defaultdict(list)  # (port, consumer) -> normalised tokens received
        self.pending = {}  # (port, consumer) -> task
        self.problems = []
        self.uid = 0
        self.delivered = 0

    def problem(self, kind, what, **extra):
        if len(self.problems) < 5:
            self.problems.append((kind, what, extra))

    async def collect(self, key, must):
        """Harvest the outstanding get of `key`.  must=True: the model says a token is available."""
        t = self.pending.get(key)
        if t is None:
            return
        if not t.done():
            await settle()
        self.sh.count("oracle_get_blocks_iff_empty")
        if t.done():
            del self.pending[key]
            try:
                tok = norm(t.result())
            except Exception as e:
                self.problem("get-raised", f"get({key[1]}) on {key[0]} raised {type(e).__name__}: {e}")
                return
            self.recv[key].append(tok)
            self.delivered += 1
            if self.model.available(*key) > 0:
                self.model.take(*key)
            else:
                self.problem("phantom", f"consumer {key[1]} of port {key[0]} received {tok} but the log holds no "
                                        f"undelivered token for it (log={self.model.ports[key[0]].log})")
        elif must:
            self.problem("blocked", f"get({key[1]}) on port {key[0]} stays blocked although the log holds "
                                    f"{self.model.available(*key)} undelivered token(s): "
                                    f"{self.model.ports[key[0]].log[self.model.cursors.get(key, 0):][:3]}")

    async def do(self, op):
        from streamflow.core.workflow import Status, Token
        from streamflow.workflow.token import TerminationToken

        k = op[0]
        try:
            if k == "put":
                self.uid += 1
                self.model.apply(op, self.uid)
                self.real[op[1]].put(Token(value=self.uid, tag=op[2]))
            elif k == "term":
                self.model.apply(op)
                self.real[op[1]].put(TerminationToken(Status[op[2]]))
            elif k == "rule":
                self.model.apply(op)
                self.real[op[1]].add_inter_port(self.real[op[2]], list(op[3]), action_of(op[4]))
            elif k == "get":
                key = (op[1], op[2])
                if key in self.pending:
                    await self.collect(key, must=self.model.available(*key) > 0)
                if key not in self.pending:
                    self.pending[key] = asyncio.ensure_future(self.real[op[1]].get(op[2]))
            elif k == "yield":
                await settle(op[1])
        except Exception as e:
            self.problem("raised", f"{op} raised {type(e).__name__}: {e}", tb=short_tb(e, 4)[-600:])

    async def finish(self):
        """Drain: every consumer (and one fresh late subscriber per port) reads the whole log; then one
        more get must block."""
        await settle()
        keys = sorted(set(self.pending) | set(self.recv) | {(p, "late") for p in self.real})
        for key in keys:
            if key[1] == "late":
                self.sh.count("late_subscribers_checked")
            for _ in range(2 * len(self.model.ports[key[0]].log) + 10):
                if key in self.pending:
                    await self.collect(key, must=self.model.available(*key) > 0)
                    if key in self.pending:  # still blocked
                        break
                elif self.model.available(*key) > 0:
                    self.pending[key] = asyncio.ensure_future(self.real[key[0]].get(key[1]))
                else:
                    break
            if key not in self.pending:
                # the log is exhausted for this consumer: one more get must block
                self.pending[key] = asyncio.ensure_future(self.real[key[0]].get(key[1]))
                await self.collect(key, must=False)
            t = self.pending.pop(key, None)
            if t is not None:
                t.cancel()
        await settle(2)

    def judge(self):
        sh = self.sh
        for key in sorted(self.recv):
            sh.count("oracle_consumer_sequence")
            got = self.recv[key]
            full = self.model.ports[key[0]].log
            if got != full[: len(got)]:
                i = next((j for j, (a, b) in enumerate(zip(got, full)) if a != b), min(len(got), len(full)))
                self.problem("sequence", f"consumer {key[1]} of {self.case['spec'][key[0]]['kind']} port {key[0]} received "
                                         f"{got} but the reference log is {full} (first difference at position {i})")
            elif len(got) != len(full) and not any(p[0] in ("blocked", "phantom") for p in self.problems):
                self.problem("incomplete", f"consumer {key[1]} of port {key[0]} read {len(got)} of {len(full)} tokens")


async def run_history(sh, case):
    r = Run(sh, case)
    for op in case["ops"]:
        await r.do(op)
    await r.finish()
    r.judge()
    sh.count("boundary_actions_observed", r.model.fired)
    sh.count("replay_rules_observed", r.model.replayed)
    if r.model.ood is None:
        sh.count("post_completion_tokens_judged", r.model.post_completion)
        sh.count("empty_tag_rule_firings_judged", r.model.empty_rule_fired)
        sh.count("late_rule_multi_token_replays_judged", r.model.replay_multi)
    return r


def report(sh, case, r, stats, origin):
    key = (case["spec"], case["ops"])
    if r.model.ood is not None:
        sh.case(key, nontrivial=False)
        stats["ood_histories"] += 1
        stats["ood_reasons"][r.model.ood] += 1
        if r.problems:
            stats["ood_differs_from_pinned_behaviour"] += 1
            if len(stats["ood_examples"]) < 2:
                stats["ood_examples"].append({"case": case, "problem": r.problems[0][1][:300]})
        return
    sh.case(key, nontrivial=r.delivered > 0)
    stats["judged_" + origin] += 1
    main_kind = case["spec"]["p"]["kind"]
    stats["judged_by_kind"][main_kind] += 1
    for kind, what, extra in r.problems:
        sh.violation(None, f"[{main_kind}] {kind}: {what}", dict(case=case, problem=kind, **extra))


# ----------------------------------------------------------------------------- generation
def alphabet(kind):
    if kind == "plain":
        spec = {"p": {"kind": "plain"}}
        ops = [["put", "p", "0.0"], ["term", "p", "COMPLETED"], ["get", "p", "c0"], ["get", "p", "c1"]]
    elif kind == "filter":
        spec = {"p": {"kind": "filter", "allowed": ["0.0"]}}
        ops = [["put", "p", "0.0"], ["put", "p", "0.1"], ["term", "p", "COMPLETED"], ["get", "p", "c0"], ["get", "p", "c1"]]
    elif kind == "inter_late":
        # boundaries that are already complete: later tokens, empty tag lists, rules attached late
        spec = {"p": {"kind": "inter"}, "o": {"kind": "plain"}}
        ops = [["put", "p", "0.0"], ["put", "p", "0.1"], ["get", "o", "c1"], ["get", "p", "c0"],
               ["rule", "p", "o", [], "P"], ["rule", "p", "o", ["0.0"], "PT"], ["rule", "p", "p", [], "T"]]
    else:
        spec = {"p": {"kind": "inter"}, "o": {"kind": "plain"}}
        ops = [["put", "p", "0.0"], ["put", "p", "0.1"], ["term", "p", "COMPLETED"], ["get", "p", "c0"], ["get", "o", "c1"],
               ["rule", "p", "p", ["0.0"], "PT"], ["rule", "p", "p", ["0.0", "0.1"], "PT"], ["rule", "p", "p", ["0.1"], "T"],
               ["rule", "p", "o", ["0.0"], "P"], ["rule", "p", "o", ["0.0", "0.0"], "PT"], ["rule", "p", "o", ["0.1", "0.0"], "T"]]
    return spec, ops


def with_yields(ops, policy, rng=None):
    if policy == "none":
        return [list(o) for o in ops]
    out = []
    for o in ops:
        out.append(list(o))
        if policy == "each":
            out.append(["yield", 2])
        elif rng.random() < 0.5:
            out.append(["yield", rng.randint(1, 3)])
    return out


TAGS = ["0.0", "0.1", "0.2", "0.10", "0.1.0", "0.9"]


def gen_random(rng):
    kind = rng.choice(["plain", "filter", "inter", "inter", "inter", "inter"])
    tags = TAGS[: rng.choice([2, 3, 6])]
    spec = {"p": {"kind": kind}}
    if kind == "filter":
        spec["p"]["allowed"] = [t for t in tags if rng.random() < 0.5]
    targets = ["p"]
    if kind == "inter":
        spec["o0"] = {"kind": "plain"}
        spec["o1"] = rng.choice([{"kind": "plain"}, {"kind": "filter", "allowed": [t for t in tags if rng.random() < 0.6]}])
        targets += ["o0", "o1"]
        if rng.random() < 0.4:
            spec["q"] = {"kind": "inter"}
            targets.append("q")
    consumers = {"p": [f"c{i}" for i in range(rng.randint(1, 4))]}
    for o in spec:
        if o != "p":
            consumers[o] = [f"d{i}" for i in range(rng.randint(0, 2))]
    model = Model(spec)
    ops = []
    n = rng.randint(3, 28)
    uid = 0
    steer = rng.random() < 0.85
    while len(ops) < n:
        w = rng.random()
        if w < 0.32:
            port = "p" if rng.random() < 0.8 else rng.choice(list(spec))
            op = ["put", port, rng.choice(tags)]
        elif w < 0.37:
            op = ["term", rng.choice(list(spec)) if rng.random() < 0.3 else "p", rng.choice(["COMPLETED", "SKIPPED", "FAILED"])]
        elif w < 0.70:
            port = rng.choice([p for p in consumers if consumers[p]])
            op = ["get", port, rng.choice(consumers[port])]
        elif w < 0.85 and kind == "inter":
            src = "q" if ("q" in spec and rng.random() < 0.25) else "p"
            tgt = rng.choice(["o0", "o1"]) if src == "q" else rng.choice(targets)
            k = rng.choice([0, 1, 1, 1, 2, 2, 3])
            rtags = [rng.choice(tags + (["0.99"] if rng.random() < 0.15 else [])) for _ in range(k)]
            if rtags and rng.random() < 0.2:
                rtags.append(rtags[0])  # duplicate tag: needs two arrivals
            op = ["rule", src, tgt, rtags, rng.choice(["P", "T", "PT", "PT"])]
        else:
            op = ["yield", rng.randint(1, 3)]
        if op[0] in ("put", "term", "rule"):
            if steer and model.ood is None:
                trial = model.clone()
                trial.apply(op, uid + 1)
                if trial.ood is not None and rng.random() < 0.9:
                    continue
            if op[0] == "put":
                uid += 1
            model.apply(op, uid)
        ops.append(op)
    return {"spec": spec, "ops": ops}


def new_stats():
    return {"judged_exhaustive": 0, "judged_random": 0, "ood_histories": 0, "ood_differs_from_pinned_behaviour": 0,
            "ood_reasons": collections.Counter(), "judged_by_kind": collections.Counter(), "ood_examples": [],
            "exhaustive_complete": {}}


def run_shard(sh: Shard) -> None:
    asyncio.run(_run_shard(sh))


async def _run_shard(sh: Shard) -> None:
    import time

    import streamflow.workflow.port  # noqa: F401  warm-up import

    stats = new_stats()
    t0 = time.time()
    max_lens = {"plain": sh.pick(6, 8), "filter": sh.pick(5, 7), "inter": sh.pick(5, 6), "inter_late": sh.pick(5, 7)}
    # (a) bounded-exhaustive histories
    idx = 0
    for kind in ("plain", "filter", "inter_late", "inter"):
        spec, ops = alphabet(kind)
        complete = 0  # largest length whose sequences (this shard's share) were all run
        for length in range(1, max_lens[kind] + 1):
            cut = False
            for seq in itertools.product(range(len(ops)), repeat=length):
                idx += 1
                if not sh.mine(idx):
                    continue
                if not sh.replaying and time.time() - t0 > sh.pick(45.0, 500.0):
                    cut = True
                    break
                for policy in ("none", "each"):
                    case = {"spec": spec, "ops": with_yields([ops[i] for i in seq], policy)}
                    r = await run_history(sh, case)
                    sh.count("exhaustive_histories")
                    report(sh, case, r, stats, "exhaustive")
            if cut:
                break
            complete = length
        stats["exhaustive_complete"][kind] = {"all_sequences_up_to_length": complete, "planned": max_lens[kind]}
    stats["exhaustive_s"] = round(time.time() - t0, 1)
    # (b) seeded random histories
    t1 = time.time()
    n = sh.pick(4000, 150000)
    done = 0
    while done < n and time.time() - t1 < sh.pick(15.0, 330.0):
        i = done * sh.nshards + sh.shard
        case = gen_random(sh.rng("hist", i))
        r = await run_history(sh, case)
        sh.count("random_histories")
        report(sh, case, r, stats, "random")
        if done < 40 and r.model.ood is None and r.model.fired and len(sh.samples) < 2 and sh.shard < 3:
            sh.sample({"case": case, "received": {f"{k[0]}/{k[1]}": v for k, v in r.recv.items()},
                       "reference_logs": {p: m.log for p, m in r.model.ports.items()}})
        done += 1
    stats["random_s"] = round(time.time() - t1, 1)
    sh.note("c03", {k: (dict(v) if isinstance(v, collections.Counter) else v) for k, v in stats.items()})


def replay(sh: Shard, w: dict) -> None:
    async def go():
        case = w["case"]
        r = await run_history(sh, case)
        report(sh, case, r, new_stats(), "random")

    asyncio.run(go())
