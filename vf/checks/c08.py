"""C08  Save -> load reproduces the workflow; deep copy; loads are independent.

Workloads (all on the real classes, nothing is executed):
 (a) `graph`  hand-generated graphs over every built-in step / port / combinator / processor / command /
              config type with randomised constructor parameters (vf.harness.c08_gen), plus three
              dedicated variants that reproduce the listed findings (dup-port, empty-scatter-skip,
              workflow-inputs);
 (b) `cwl`    workflows produced by the real CWLTranslator from generated CWL documents, bindings
              and deployments (vf.harness.c08_cwl);
 (c) `tokens` forests of nested List/Object/Job/File/termination tokens saved on ports;
 (d) `graph-incremental`  a graph is saved, then grown (new input/output ports on persisted steps, new steps
              reading persisted ports, new ports) and saved again, 1-2 growth phases, then all oracles on the final graph;
 (e) `tokens-concurrent`  composite tokens sharing unsaved inner tokens, saved by concurrent tasks (asyncio.gather
              through the jittering database), then loaded and compared like (c).

Oracles (vf.models.c08_canon: reflective canonical form, rules R1-R9 in its docstring):
 O1 saving does not change the original's canonical form;
 O2 canon(original) == canon(load #1) with a fresh DefaultDatabaseLoadingContext, every `workflow`
    back reference of the loaded graph is the loaded workflow, every Port object referenced by a step
    is the workflow's port of that name;
 O3 WorkflowBuilder(deep_copy=True) copy == original (step status reset to WAITING, as the builder
    documents), workflow / steps / ports carry no persistent_id; the copy can be saved as a new record
    with new ids, loads back equal, and leaves the original's rows untouched;
 O4 canon(load #2) == canon(load #1); loads #1 and #2 share no mutable container; after appending a
    sentinel to every mutable container reachable from load #1: load #2 is unchanged, a fresh load #3
    equals the snapshot, and the raw SQL rows (own SQL, same connection) are unchanged;
 (c) the same for tokens: class, tag, value, recoverable flag (attribute and property), and
    get_port_tokens returns exactly the ids saved on each port.

Domain: freshly built, not yet executed graphs (run-time state empty); FilterTokenPort with its default
filter (a callable cannot be stored); port contents are not part of a port's record (rule R8).
"""
from __future__ import annotations

import asyncio
import collections
import os
import random
import shutil

from vf.common import Shard, short_tb

PROPERTY = "C08"
META = {
    "text": "For hand-generated graphs over all built-in entity types, CWL-translated workflows and token forests: "
            "the loaded / builder-copied object graph has the same reflective canonical form as the original, the copy has "
            "no persistent ids and persists as a new record, two loads are equal, share no mutable state, and mutating one "
            "changes neither the other, nor a later load, nor the SQL rows.",
    "note": "Structural identity is the canonical form of vf/models/c08_canon.py (rules R1-R9); graphs are not executed, "
            "so run-time state is empty; port contents are outside a port's record.",
    "technique": "round-trip differential oracle on reflective canonical forms + aliasing probe by sentinel mutation",
}

M_PK = "C08/dependency-pk-collision"
M_SKIP = "C08/empty-scatter-skip-ports-not-loaded"
M_WFIN = "C08/workflow-input-ports-not-persisted"
M_ALIAS = "C08/cache-row-aliasing"


def plan(tier):
    q = tier == "quick"
    return {
        "level": "exploration",
        "shards": 16,
        "budget_s": 50 if q else 700,
        "timeout_s": 600 if q else 3600,
        "min_nontrivial": 30 if q else 500,
        "required_counters": ["roundtrip_compared", "copy_compared", "two_loads_compared", "sharing_probed",
                              "mutation_probed", "sql_rows_compared", "tokens_compared", "cwl_workflows",
                              "graph_workflows", "token_forests", "incremental_save_phases",
                              "new_input_port_on_saved_step", "new_step", "concurrent_save_batches", "shared_inner_tokens"],
        "rule": "cases are (kind, seed): graph (1-7 random steps of 23 kinds, random ports/processors/commands/targets), "
                "graph variants all-kinds (every step/combinator/processor/command kind, first case of every shard) / dup-port / "
                "empty-scatter-skip / workflow-inputs, graph-incremental (save, grow wiring/steps, save again, 1-2 phases), cwl (1-5 random CWL steps over 14 features "
                "+ random bindings), tokens (forest of 8-30 trees, depth<=4), tokens-concurrent (4-12 composites sharing 2-5 unsaved inner tokens, saved with gather). Non-trivial = the workflow has at least one "
                "step (graph/cwl) or one nested token (tokens); distinct = distinct (kind, seed).",
        "exhaustive": False,
        "assumptions": ["graphs are saved before execution (run-time maps empty)",
                        "mappings are unordered, tuple == list, DeploymentConfig.external/lazy compared by truth value"],
    }


# ----------------------------------------------------------------------------------------- helpers
class Ctx:
    """one real StreamFlowContext (vf-jitter sqlite in memory) + raw SQL access"""

    def __init__(self, workdir, seed):
        from vf.harness.ctx import make_context
        from vf.perturb import Sched

        Sched.reset(seed, K=2)
        self.workdir = workdir
        self.ctx = make_context(workdir, db="vf-jitter")
        self.db = self.ctx.database

    async def dump(self):
        from vf.models.c09_oracle import Uncached

        async with self.db.connection as conn:
            pass
        return await Uncached(conn).dump()

    def cached_containers(self):
        """ids of every mutable container that lives inside a row held by one of the database caches"""
        ids = set()

        def rec(x):
            if isinstance(x, (dict, list)):
                ids.add(id(x))
                for v in (x.values() if isinstance(x, dict) else x):
                    rec(v)

        for a in ("deployment_cache", "port_cache", "step_cache", "target_cache", "filter_cache", "token_cache", "workflow_cache"):
            cache = getattr(self.db, a)
            for k in list(cache.keys()):
                try:
                    rec(cache[k])
                except KeyError:
                    pass
        return ids

    async def close(self):
        await self.ctx.close()


def reset_status(c):
    """canonical form with every step's status/terminated as the builder resets them"""
    import copy as _copy

    c = _copy.deepcopy(c)
    try:
        steps = c["attrs"]["steps"]["~map"]
    except (KeyError, TypeError):
        return c
    for s in steps.values():
        if isinstance(s, dict) and "attrs" in s:
            s["attrs"]["status"] = {"~enum": "streamflow.core.workflow.Status.WAITING"}
            s["attrs"]["terminated"] = False
    return c


def classify_structure(orig, c_orig, c_new, diffs):
    """Partition structural diffs (original vs loaded/copied) by mechanism.  Each predicate looks at the
    original objects and at the whole loaded canonical form, never at the case kind."""
    from vf.models.c08_canon import ABSENT

    out = collections.defaultdict(list)

    def get(c, *path):
        for p in path:
            if not isinstance(c, dict) or p not in c:
                return None
            c = c[p]
        return c

    for d in diffs:
        path, a, b = d
        mech = None
        # workflow.input_ports: saved params hold only config and output_ports -> loaded mapping is empty
        if (len(path) == 4 and path[:3] == ("attrs", "input_ports", "~map") and b == ABSENT
                and get(c_new, "attrs", "input_ports", "~map") == {}):
            mech = M_WFIN
        elif len(path) == 8 and path[:3] == ("attrs", "steps", "~map") and path[4] == "attrs" and path[6] == "~map" and b == ABSENT:
            sname, field, name = path[3], path[5], path[7]
            step = getattr(orig, "steps", {}).get(sname)
            if step is not None and field == "skip_ports":
                # CWLEmptyScatterConditionalStep._load builds the step without add_skip_port -> all skip ports lost
                if (type(step).__name__ == "CWLEmptyScatterConditionalStep"
                        and get(c_new, "attrs", "steps", "~map", sname, "attrs", "skip_ports", "~map") == {}):
                    mech = M_SKIP
            elif step is not None and field in ("input_ports", "output_ports"):
                # dependency PK (step, port) + INSERT OR IGNORE: of all names of this step wired to one port
                # (inputs and outputs together) exactly one survives
                refs = [("input_ports", n, p) for n, p in step.input_ports.items()] + [("output_ports", n, p) for n, p in step.output_ports.items()]
                port = dict(((f, n), p) for f, n, p in refs).get((field, name))
                same = [(f, n) for f, n, p in refs if p == port]
                if port is not None and len(same) > 1:
                    present = [(f, n) for f, n in same
                               if get(c_new, "attrs", "steps", "~map", sname, "attrs", f, "~map", n) == port]
                    if len(present) == 1:
                        mech = M_PK
        out[mech].append(d)
    return out


class Judge:
    def __init__(self, sh: Shard, case: dict):
        from vf.models.c08_canon import Canon

        self.sh = sh
        self.case = case
        self.C = Canon()

    def report(self, mech, what, extra=None):
        w = {"case": self.case}
        if extra:
            w.update(extra)
        self.sh.violation(mech, what, w)

    def compare(self, label, orig_obj, c_a, c_b):
        """structural comparison with mechanism classification; returns True when identical"""
        from vf.models.c08_canon import diff, short, show

        ds = diff(c_a, c_b)
        if not ds:
            return True
        for mech, items in classify_structure(orig_obj, c_a, c_b, ds).items():
            first = items[0]
            self.report(mech, f"{label}: {len(items)} structural difference(s), e.g. {show(first[0])}: original {short(first[1], 120)} vs {short(first[2], 120)}",
                        {"oracle": label, "diffs": [[show(p), short(a, 200), short(b, 200)] for p, a, b in items[:8]]})
        return False

    # ------------------------------------------------------------------ workflows
    async def workflow(self, X: Ctx, wf, info, phases=()):
        from streamflow.core.workflow import Port, Step, Workflow
        from streamflow.persistence.loading_context import DefaultDatabaseLoadingContext, WorkflowBuilder
        from vf.models.c08_canon import SENTINEL, diff, has_sentinel, short, show, strip_sentinel

        sh, C = self.sh, self.C
        # incremental class: the graph is saved, extended (new wiring on persisted steps, new steps on persisted
        # ports), saved again ...; every oracle below then applies to the final in-memory graph
        for grow in phases:
            await wf.save(X.db)
            grow()
            sh.count("incremental_save_phases")
        c0 = C.canon(wf)
        await wf.save(X.db)
        c1 = C.canon(wf)
        if c0 != c1:
            d = diff(c0, c1)[0]
            self.report(None, f"save() changed the original workflow at {show(d[0])}: {short(d[1])} -> {short(d[2])}", {"oracle": "O1"})
        sql1 = await X.dump()

        # O2 round trip
        w1 = await DefaultDatabaseLoadingContext(X.db).load_workflow(wf.persistent_id)
        l1 = C.canon(w1)
        sh.count("roundtrip_compared")
        self.compare("O2 save->load", wf, c1, l1)
        self.backrefs("load #1", w1)

        # O3 deep copy through the builder
        cp = await WorkflowBuilder(X.db, deep_copy=True).load_workflow(wf.persistent_id)
        sh.count("copy_compared")
        self.compare("O3 builder deep copy", wf, reset_status(c1), reset_status(C.canon(cp)))
        self.backrefs("deep copy", cp)
        ids = [(n, pid) for n, pid, o in C.persistent_ids(cp) if isinstance(o, (Workflow, Step, Port)) and pid is not None]
        if ids:
            self.report(None, f"deep copy keeps persistent ids: {ids[:6]}", {"oracle": "O3-ids", "ids": ids[:20]})
        if cp is wf or cp is w1:
            self.report(None, "deep copy returned an existing workflow object", {"oracle": "O3"})
        # the copy persists as a new record and loads back equal
        await cp.save(X.db)
        new_ids = {(type(o).__name__, pid) for n, pid, o in C.persistent_ids(cp) if isinstance(o, (Workflow, Step, Port))}
        old_ids = {(type(o).__name__, pid) for n, pid, o in C.persistent_ids(wf) if isinstance(o, (Workflow, Step, Port))}
        if None in {p for _, p in new_ids} or (new_ids & old_ids):
            self.report(None, f"saving the deep copy reused / missed persistent ids: {sorted(new_ids & old_ids, key=str)[:6]}", {"oracle": "O3-save"})
        cp2 = await DefaultDatabaseLoadingContext(X.db).load_workflow(cp.persistent_id)
        self.compare("O3 copy saved->load", wf, reset_status(c1), reset_status(C.canon(cp2)))
        sql1b = await X.dump()
        lost = {t: [r for r in rows if r not in set(sql1b[t])] for t, rows in sql1.items()}
        lost = {t: v for t, v in lost.items() if v}
        sh.count("sql_rows_compared")
        if lost:
            self.report(None, f"saving the deep copy changed rows of the original record in {sorted(lost)}", {"oracle": "O3-sql", "lost": {t: v[:3] for t, v in lost.items()}})

        # O4 two loads, independence
        w2 = await DefaultDatabaseLoadingContext(X.db).load_workflow(wf.persistent_id)
        l2 = C.canon(w2)
        sh.count("two_loads_compared")
        if l2 != l1:
            d = diff(l1, l2)[0]
            self.report(None, f"two loads differ at {show(d[0])}: {short(d[1])} vs {short(d[2])}", {"oracle": "O4-equal"})
        cached = X.cached_containers()
        c_1 = {id(o): o for o in C.containers(w1)}
        shared = [o for o in C.containers(w2) if id(o) in c_1]
        sh.count("sharing_probed")
        alias_reported = False
        if shared or w1 is w2:
            in_cache = [o for o in shared if id(o) in cached]
            mech = M_ALIAS if shared and len(in_cache) == len(shared) else None
            alias_reported = mech == M_ALIAS
            self.report(mech, f"loads #1 and #2 share {len(shared)} mutable container(s), e.g. {short(shared[0], 100) if shared else 'the workflow'}"
                              f" ({len(in_cache)} of them are inside rows held by the database caches)", {"oracle": "O4-sharing", "shared": len(shared), "in_cached_rows": len(in_cache)})
        sql2a = await X.dump()
        n_mut = C.mutate_everything(w1)
        sh.count("mutation_probed")
        sh.count("containers_mutated", sum(n_mut.values()))
        w3 = await DefaultDatabaseLoadingContext(X.db).load_workflow(wf.persistent_id)
        for label, obj in (("load #2 (made before the mutation)", w2), ("load #3 (made after the mutation)", w3)):
            c = C.canon(obj)
            if c == l1:
                continue
            mech = None
            if strip_sentinel(c) == l1:
                tainted = [o for o in C.containers(obj) if (SENTINEL in o if not isinstance(o, collections.deque) else SENTINEL in list(o))]
                now_cached = X.cached_containers()
                if tainted and all(id(o) in now_cached or id(o) in cached for o in tainted):
                    mech = M_ALIAS
            d = diff(l1, c)[0]
            self.report(mech, f"after mutating every container of load #1, {label} differs from the snapshot at {show(d[0])}: {short(d[1], 100)} -> {short(d[2], 100)}",
                        {"oracle": "O4-mutation", "which": label, "diffs": [[show(p), short(a, 120), short(b, 120)] for p, a, b in diff(l1, c)[:6]]})
        sql2 = await X.dump()
        sh.count("sql_rows_compared")
        if sql2 != sql2a:
            bad = [t for t in sql2 if sql2[t] != sql2a[t]]
            self.report(None, f"mutating a loaded workflow changed the stored rows of {bad}", {"oracle": "O4-sql"})

    def backrefs(self, label, root):
        """every `workflow` attribute reachable from root is root; every Port held by an object is root.ports[name]"""
        from streamflow.core.workflow import Port

        bad = []

        def visit(o):
            if isinstance(o, (list, dict, set, tuple)):
                return
            w = getattr(o, "workflow", None)
            if w is not None and o is not root and w is not root:
                bad.append(f"{type(o).__name__}({getattr(o, 'name', '?')}).workflow is another Workflow object")
            if isinstance(o, Port) and root.ports.get(o.name) is not o:
                bad.append(f"Port {o.name!r} referenced by the graph is not workflow.ports[{o.name!r}]")

        self.C.walk(root, visit)
        self.sh.count("backrefs_checked")
        if bad:
            self.report(None, f"{label}: {len(bad)} broken back reference(s): {bad[:3]}", {"oracle": "O2-backrefs", "bad": bad[:10]})

    # ------------------------------------------------------------------ tokens
    async def tokens(self, X: Ctx, rng, concurrent=False):
        from streamflow.core.workflow import Token, Workflow
        from streamflow.persistence.loading_context import DefaultDatabaseLoadingContext
        from streamflow.workflow.token import ListToken, ObjectToken
        from vf.harness import c08_gen as G
        from vf.models.c08_canon import SENTINEL, diff, short, show, strip_sentinel

        sh, C = self.sh, self.C
        wf = Workflow(context=X.ctx, config={}, name="tok-" + str(rng.randrange(1 << 30)))
        ports = [wf.create_port() for _ in range(rng.randint(1, 3))]
        await wf.save(X.db)
        on_port = collections.defaultdict(list)
        canon0 = []
        if concurrent:
            # composites sharing unsaved inner tokens, saved by concurrent tasks through the jittering database
            # (the first insert of a shared inner token is in flight when the second parent reaches it)
            forest, inners = G.build_shared_forest(rng)
            canon0 = [C.canon(t) for t in forest]
            where = [rng.choice(ports + [None]) for _ in forest]
            await asyncio.gather(*(asyncio.create_task(t.save(X.db, port_id=p.persistent_id if p is not None else None))
                                   for t, p in zip(forest, where)))
            sh.count("concurrent_save_batches")
            sh.count("shared_inner_tokens", len(inners))
            for t, p in zip(forest, where):
                if p is not None:
                    on_port[p.persistent_id].append(t.persistent_id)
            unsaved = [type(t).__name__ for t in C.objects(forest, Token) if t.persistent_id is None]
            if unsaved:
                self.report(None, f"after concurrent save() of the forest {len(unsaved)} reachable token(s) have no persistent_id: {unsaved[:5]}", {"oracle": "O1-concurrent"})
        else:
            forest = [G.build_token(rng) for _ in range(rng.randint(8, 30))]
            for t in forest:
                canon0.append(C.canon(t))
                p = rng.choice(ports + [None])
                await t.save(X.db, port_id=p.persistent_id if p is not None else None)
                if p is not None:
                    on_port[p.persistent_id].append(t.persistent_id)
        for t, c in zip(forest, canon0):
            if C.canon(t) != c:
                self.report(None, "save() changed the original token", {"oracle": "O1"})
        nested = False
        lc1, lc2 = DefaultDatabaseLoadingContext(X.db), DefaultDatabaseLoadingContext(X.db)
        loaded1, loaded2 = [], []
        for t, c in zip(forest, canon0):
            try:
                t1 = await lc1.load_token(t.persistent_id)
                t2 = await (lc2 if rng.random() < 0.5 else DefaultDatabaseLoadingContext(X.db)).load_token(t.persistent_id)
            except Exception as e:
                row = await X.db.get_token(t.persistent_id)
                self.report(None, f"loading a saved {type(t).__name__} raised {type(e).__name__}: {str(e)[:150]} (stored value {short(row['value'], 120)})",
                            {"oracle": "O2-token-load", "token_class": type(t).__name__, "concurrent_save": concurrent, "tb": short_tb(e)})
                loaded1.append(t)
                loaded2.append(t)
                continue
            loaded1.append(t1)
            loaded2.append(t2)
            sh.count("tokens_compared")
            nested = nested or isinstance(t, (ListToken, ObjectToken))
            c1 = C.canon(t1)
            if c1 != c:
                d = diff(c, c1)[0]
                self.report(None, f"token save->load differs at {show(d[0])}: {short(d[1], 120)} vs {short(d[2], 120)}",
                            {"oracle": "O2-token", "token_class": type(t).__name__, "diffs": [[show(p), short(a, 150), short(b, 150)] for p, a, b in diff(c, c1)[:6]]})
            if type(t1) is not type(t) or t1.tag != t.tag or t1.recoverable != t.recoverable:
                self.report(None, f"token {type(t).__name__} tag {t.tag} recoverable {t.recoverable} loaded as {type(t1).__name__} tag {t1.tag} recoverable {t1.recoverable}",
                            {"oracle": "O2-token-flags"})
            if C.canon(t2) != c1:
                self.report(None, "two loads of one token differ", {"oracle": "O4-equal"})
        for pid, ids in on_port.items():
            got = await X.db.get_port_tokens(pid)
            sh.count("port_token_lists_compared")
            if sorted(got) != sorted(ids):
                self.report(None, f"get_port_tokens({pid}) = {sorted(got)}, saved {sorted(ids)}", {"oracle": "O2-port-tokens"})
        # independence
        snap = [C.canon(t) for t in loaded1]
        cached = X.cached_containers()
        c_1 = {id(o) for t in loaded1 for o in C.containers(t)}
        shared = [o for t in loaded2 for o in C.containers(t) if id(o) in c_1]
        sh.count("sharing_probed")
        if shared:
            in_cache = [o for o in shared if id(o) in cached]
            self.report(M_ALIAS if len(in_cache) == len(shared) else None,
                        f"two loads of the token forest share {len(shared)} mutable container(s) ({len(in_cache)} inside cached rows), e.g. {short(shared[0], 100)}",
                        {"oracle": "O4-sharing", "shared": len(shared), "in_cached_rows": len(in_cache)})
        sql_a = await X.dump()
        for t in loaded1:
            C.mutate_everything(t)
        sh.count("mutation_probed")
        lc3 = DefaultDatabaseLoadingContext(X.db)
        loaded3 = [await lc3.load_token(t.persistent_id) for t in forest]
        for label, group in (("load #2", loaded2), ("load #3 (after the mutation)", loaded3)):
            bad = [(i, C.canon(t)) for i, t in enumerate(group) if C.canon(t) != snap[i]]
            if not bad:
                continue
            now_cached = X.cached_containers()
            mech = M_ALIAS
            for i, c in bad:
                tainted = [o for o in C.containers(group[i]) if SENTINEL in o]
                if strip_sentinel(c) != snap[i] or not tainted or not all(id(o) in now_cached or id(o) in cached for o in tainted):
                    mech = None
            i, c = bad[0]
            d = diff(snap[i], c)[0]
            self.report(mech, f"after mutating load #1 of the forest, {len(bad)} token(s) of {label} differ, e.g. at {show(d[0])}: {short(d[1], 100)} -> {short(d[2], 100)}",
                        {"oracle": "O4-mutation", "which": label})
        sh.count("sql_rows_compared")
        if await X.dump() != sql_a:
            self.report(None, "mutating loaded tokens changed the stored rows", {"oracle": "O4-sql"})
        return nested, len(forest)


# --------------------------------------------------------------------------------------------- cases
async def run_async(sh: Shard, case: dict, workdir: str):
    from vf.harness import c08_cwl, c08_gen

    rng = random.Random(case["seed"])
    X = Ctx(workdir, case["seed"])
    J = Judge(sh, case)
    nontrivial, info = False, {}
    try:
        if case["kind"] == "graph":
            wf, info = c08_gen.build_graph(rng, X.ctx, case.get("variant", "generic"))
            sh.count("graph_workflows")
            await J.workflow(X, wf, info)
            nontrivial = len(wf.steps) > 0
            info = {"steps": len(wf.steps), "ports": len(wf.ports), "classes": info["classes"]}
        elif case["kind"] == "cwl":
            doc, job, sf, feats = c08_cwl.gen(rng)
            cp, jp = c08_cwl.write_case(workdir, doc, job)
            try:
                wf = c08_cwl.translate(X.ctx, workdir, cp, jp, sf, "w" + str(case["seed"]))
            except Exception as e:  # the document is outside what the translator accepts: not this property's business
                sh.count("out_of_domain_cwl_rejected")
                return False, {"rejected": f"{type(e).__name__}: {str(e)[:200]}", "features": feats}
            sh.count("cwl_workflows")
            await J.workflow(X, wf, None)
            nontrivial = len(wf.steps) > 0
            cls = collections.Counter(type(s).__name__ for s in wf.steps.values())
            info = {"features": feats, "steps": len(wf.steps), "ports": len(wf.ports), "classes": dict(cls), "bindings": bool(sf)}
        elif case["kind"] == "graph-incremental":
            wf, phases, ginfo = c08_gen.build_incremental(rng, X.ctx)
            sh.count("incremental_workflows")
            await J.workflow(X, wf, ginfo, phases=phases)
            nontrivial = True
            for k, v in ginfo["growth"].items():
                sh.count(k, v)
            info = {"steps": len(wf.steps), "ports": len(wf.ports), "growth": dict(ginfo["growth"]), "classes": dict(ginfo["used"])}
        elif case["kind"] in ("tokens", "tokens-concurrent"):
            sh.count("token_forests")
            nontrivial, n = await J.tokens(X, rng, concurrent=case["kind"] == "tokens-concurrent")
            nontrivial = nontrivial or case["kind"] == "tokens-concurrent"
            info = {"tokens": n}
        J.C.notes and info.setdefault("canon_notes", dict(J.C.notes))
        return nontrivial, info
    finally:
        try:
            await X.close()
        except Exception:
            pass


def run_case(sh: Shard, case: dict):
    d = os.path.join(sh.scratch, f"c08_{case['kind']}_{case['seed']}")
    shutil.rmtree(d, ignore_errors=True)
    os.makedirs(d)
    try:
        nontrivial, info = asyncio.run(asyncio.wait_for(run_async(sh, case, d), 400))
        sh.case((case["kind"], case.get("variant"), case["seed"]), nontrivial=nontrivial)
        return info
    except asyncio.TimeoutError:
        sh.inconclusive_because(f"case {case} exceeded the 400 s wall-clock watchdog")
    except Exception as e:
        # building, saving and loading an in-domain graph must not raise
        sh.violation(None, f"case {case} raised {type(e).__name__}: {str(e)[:300]}", {"case": case, "tb": short_tb(e)})
        sh.case((case["kind"], case.get("variant"), case["seed"]), nontrivial=False)
    finally:
        shutil.rmtree(d, ignore_errors=True)
        import gc

        gc.collect()  # see run_shard: automatic GC is off while cases run
    return None


def run_shard(sh: Shard) -> None:
    rng = sh.rng("cases", sh.shard)
    # cachebox 6.2.0 can deadlock with itself when a full GC starts inside the lambda that
    # `locks.setdefault_with` calls while holding the cache mutex (the GC traverses the same cache).  That is a
    # third-party liveness hazard outside this property; automatic GC is switched off while cases run and an
    # explicit collection is done between cases, so a hang cannot make the verdict inconclusive.
    import gc

    gc.disable()
    sh.note("gc", "automatic GC disabled during cases, gc.collect() between cases (cachebox setdefault_with/GC self-deadlock)")
    classes = collections.Counter()
    feats = collections.Counter()
    notes = collections.Counter()
    n = 0

    def one(case, sample=False):
        nonlocal n
        info = run_case(sh, case)
        n += 1
        if info:
            classes.update(info.get("classes", {}))
            feats.update(info.get("features", []))
            notes.update(info.get("canon_notes", {}))
            if sample:
                sh.sample({"case": case, **{k: v for k, v in info.items() if k != "canon_notes"}})
        return info

    # dedicated classes (each shard runs every one once), then the mix
    one({"kind": "graph", "variant": "all-kinds", "seed": rng.randrange(1 << 48)})
    for variant in ("dup-port", "empty-scatter-skip", "workflow-inputs"):
        one({"kind": "graph", "variant": variant, "seed": rng.randrange(1 << 48)})
    one({"kind": "tokens", "seed": rng.randrange(1 << 48)}, sample=sh.shard == 2)
    for _ in range(2):
        one({"kind": "graph-incremental", "seed": rng.randrange(1 << 48)}, sample=sh.shard == 3 and len(sh.samples) < 1)
        one({"kind": "tokens-concurrent", "seed": rng.randrange(1 << 48)})
    one({"kind": "cwl", "seed": rng.randrange(1 << 48)}, sample=sh.shard == 1)
    limit = sh.pick(400, 12000)
    while n < limit and not sh.out_of_budget():
        r = rng.random()
        if r < 0.35:
            case = {"kind": "graph", "variant": "generic", "seed": rng.randrange(1 << 48)}
        elif r < 0.5:
            case = {"kind": "graph-incremental", "seed": rng.randrange(1 << 48)}
        elif r < 0.75:
            case = {"kind": "cwl", "seed": rng.randrange(1 << 48)}
        elif r < 0.88:
            case = {"kind": "tokens", "seed": rng.randrange(1 << 48)}
        else:
            case = {"kind": "tokens-concurrent", "seed": rng.randrange(1 << 48)}
        one(case, sample=sh.shard == 0 and len(sh.samples) < 1 and case["kind"] == "graph")
    sh.note("classes_instantiated", dict(classes))
    sh.note("cwl_features", dict(feats))
    sh.note("canonicaliser_normalisations", dict(notes))
    sh.note("cases", n)


def replay(sh: Shard, w: dict) -> None:
    run_case(sh, w["case"])
