"""C25  Commands run exactly once with verbatim arguments, environment and output;
persistent shell == fresh process.

Every command is a probe script (vf/harness/c25_probe.py) that records each *execution* (append-only
counter file), what it observed (os.environb values, cwd, argv; hex-encoded) and then produces a
deterministic payload / exit status, optionally sleeping so that a `timeout=` expires.

Systems under test (real code, four ways StreamFlow turns (command, environment, workdir) into a process):
  local        LocalConnector.run                       (utils.create_command -> sh -c)
  shell        vf-shell BaseConnector persistent shell  (shell._build_shell_command / BaseShell framing;
                                                         utils.create_command fallback on shell failure)
  tpl-default  utils.create_command + CommandTemplateMap default template, script executed with sh
  tpl-full     the same through a service template that also uses streamflow_workdir/_environment
  tpl-only     the service template alone (plain command string)
Reference: the harness runs the same command words in a fresh `sh -c` with the environment and cwd
handed over natively (subprocess env= / cwd=), so no shell ever interprets them.

Judgements per command (after the whole sequence has run and late processes have finished):
  once      number of executions == 1 (0 when the reference could not start it, e.g. missing workdir)
  verbatim  observed env values / cwd / argv == the strings passed
  result    (output, status) == reference (output judged after the documented strip(), only for valid
            UTF-8 payloads; arbitrary-byte payloads are judged only through the commands that follow them)
Because every command of a sequence is judged against its own fresh execution, "the command after a
timed-out / failed / no-newline command" is covered by the same comparison.
"""
from __future__ import annotations

import asyncio
import json
import os
import re
import shutil
import subprocess
import time

from vf.common import Shard
from vf.harness import c24_names as N
from vf.harness import c24_shellguard as SG
from vf.harness import c25_probe as PR

PROPERTY = "C25"
META = {
    "text": "A command given to connector.run (local connector, persistent-shell connector, queue-manager command "
            "template) is executed exactly once, sees exactly the environment values, working directory and arguments "
            "it was given, and its (output, status) equals a fresh `sh -c` execution, also after timeouts, failures "
            "and outputs without trailing newline.",
    "note": "Trusted: the probe script and the harness reference execution (subprocess with native env/cwd). The "
            "queue-manager path is exercised up to the rendered script, which the harness runs with sh (what sbatch does).",
    "technique": "differential testing against a fresh-process reference with side-effect counters and value-twin controls",
}
SVC_TEMPLATE = "#!/bin/sh\ncd {{ streamflow_workdir }}\n{{ streamflow_environment }}\n{{streamflow_command}}"
DEFAULT_TEMPLATE = "#!/bin/sh\n\n{{streamflow_command}}"
TARGETS = ["local", "shell", "shell", "tpl-default", "tpl-full", "tpl-only"]
SHELL_MAINTAINED = {"PWD", "OLDPWD", "SHLVL", "_"}  # set by any sh for itself, not by StreamFlow
MARK = re.compile(r"SF_CMD_END_[0-9a-f-]{36}:\d+\s*$")

ENV_VALUES = [
    "plain", "", "two words", " lead", "trail ", "a$HOME", "${HOME}", "cost$", "p$$", "a`id`b", "$(id)", 'q"q', "it's",
    "a\\b", "back\\", "a\\\\b", 'x";id', "a;id", "a&id", "a|id", "st*r", "q?m", "[x]", "~t", "#h", "a#b", "-n", "a=b",
    "üñí✓", "two\nid", "tab\there", "a  b", "'q'", '"', "\\", "$", "`", "a\\$HOME", "100%", "{a,b}", "a!b", "x" * 3000,
]


def plan(tier):
    q = tier == "quick"
    return {
        "level": "exploration",
        "shards": 16,
        "budget_s": 35 if q else 720,
        "timeout_s": 420 if q else 2400,
        "jail": True,
        "min_nontrivial": 16 if q else 300,
        "required_counters": ["commands_judged", "once_checked", "verbatim_checked", "result_compared",
                              "shell_commands", "local_commands", "template_commands", "timeouts_injected",
                              "commands_after_timeout_judged", "inheritance_checked"],
        "rule": "sequence of 2..8 probe commands on one target (local / persistent shell / command template), each with "
                "0..3 hostile arguments (quoted by the caller), 0..3 environment values and an optional working directory "
                "from the hostile string classes, payload 0 B..128 KiB (1 MiB thorough; text / utf-8 / blank / arbitrary "
                "bytes, with or without trailing newline), exit status 0..255, optional sleep beyond timeout=1, 30% of the timeout-free shell/local sequences issued "
                "concurrently; commands with and without workdir / environment are interleaved; distinct "
                "= distinct (target, command spec, position); non-trivial = anything but an empty-output status-0 "
                "command without env/workdir/args.",
        "exhaustive": False,
        "assumptions": [
            "environment variable names are plain identifiers; values/workdirs obey the generator safety rules (DESIGN 2.5)",
            "the caller quotes its own command words (shlex.quote), as StreamFlow's callers do",
            "queue-manager submission itself (sbatch) is not run; the rendered script is executed with sh",
        ],
    }


# ------------------------------------------------------------------------------- generation
BENIGN_VALUES = ["plain", "two words", "", "a=b", "100%", "üñí✓", "x" * 3000, "a.b-c_d", "trail ", " lead", "tab\there"]


def gen_value(rng):
    v = rng.choice(BENIGN_VALUES) if rng.random() < 0.35 else rng.choice(ENV_VALUES)
    N.assert_safe(v, allow_slash=True)
    return v


def gen_wd(rng):
    if rng.random() < 0.55:
        return rng.choice(["wd", "work.dir", "üñí"])
    cls = rng.choice(list(N.HOSTILE_CLASSES))
    return N.assert_safe(rng.choice(N.HOSTILE_CLASSES[cls]))


def gen_cmd(rng, target, big, allow_timeout):
    spec = {"kind": rng.choices(["text", "utf8", "blank", "bytes"], [5, 3, 1, 2])[0],
            "size": rng.choice([0, 0, 1, 5, 64, 1000, 4096, 65536, 65537, 131072, big]) if rng.random() < 0.7 else rng.randint(0, 3000),
            "seed": rng.randint(1, 999), "nl": rng.random() < 0.6,
            "status": rng.choice([0, 0, 0, 1, 2, 3, 126, 127, 128, 130, 255, rng.randint(0, 255)])}
    if rng.random() < 0.15:
        spec["err"] = rng.choice(["warn: something\n", "E", "partial stderr without newline"])
    cmd = {"args": [], "env": None, "wd": None, "timeout": None, "capture": rng.random() < 0.93}
    for _ in range(rng.choice([0, 0, 1, 1, 2, 3])):
        cmd["args"].append(gen_value(rng))
    need_both = target in ("tpl-full", "tpl-only")
    if target.startswith("tpl"):
        cmd["capture"] = True  # a batch script's output always goes to the job's output file
    if need_both or rng.random() < 0.7:
        keys = rng.sample(["VF_A", "VF_B", "vf_c", "VF_LONG_NAME_1"], rng.randint(1, 3))
        cmd["env"] = {k: gen_value(rng) for k in keys}
    if need_both or rng.random() < 0.6:
        cmd["wd"] = gen_wd(rng)
        if not need_both and rng.random() < 0.06:
            cmd["wd_missing"] = True
    spec["keys"] = sorted(cmd["env"] or {})
    if allow_timeout:
        cmd["timeout"] = 1
        if rng.random() < 0.7:
            spec["sleep_before"] = 2.2
        else:
            spec["sleep_after"] = 2.2
        spec["size"] = min(spec["size"], 4096)
        cmd["capture"] = True
        cmd.pop("wd_missing", None)
    cmd["spec"] = spec
    return cmd


def gen_case(rng, target, big, timeouts=None) -> dict:
    """timeouts: True = inject one, False = none, None = random."""
    n = rng.randint(2, 8)
    want = (rng.random() < 0.4) if timeouts is None else timeouts
    t_at = rng.randrange(n - 1) if (want and target in ("shell", "local")) else None
    case = {"target": target, "cmds": [gen_cmd(rng, target, big, allow_timeout=(i == t_at)) for i in range(n)]}
    if t_at is None and target in ("shell", "local") and rng.random() < 0.3:
        case["concurrent"] = True  # all commands of the sequence are issued at once (the shell must serialise them)
    return case


def twin_value(v: str) -> str:
    return "".join(ch if (ch.isalnum() or ch in "._-") else "Q" for ch in v)


# ------------------------------------------------------------------------------- environment
class Env:
    pass


async def make_env(sh: Shard) -> Env:
    from streamflow.core import utils
    from streamflow.core.deployment import DeploymentConfig
    from streamflow.deployment.template import CommandTemplateMap
    from vf.harness.ctx import make_context

    env = Env()
    env.cwd = os.path.join(sh.scratch, "cwd")
    os.makedirs(env.cwd, exist_ok=True)
    os.chdir(env.cwd)
    base = os.path.join(sh.scratch, "sf")
    env.ctx = make_context(base, db="default")
    dm = env.ctx.deployment_manager
    await dm.deploy(DeploymentConfig(name="rem", type="vf-shell", config={}, external=False, lazy=False, workdir=base))
    await dm.deploy(DeploymentConfig(name="__LOCAL__", type="local", config={}, external=True, lazy=False, workdir=base))
    env.conn = dm.get_connector("rem")
    env.local = dm.get_connector("__LOCAL__")
    env.rloc = next(iter((await env.conn.get_available_locations()).values())).location
    env.lloc = next(iter((await env.local.get_available_locations()).values())).location
    env.guard = SG.Guard(env.conn, same_cmd_cap=0)
    env.probe = PR.install(sh.scratch)
    env.tm = CommandTemplateMap(default=DEFAULT_TEMPLATE, template_map={"svc": SVC_TEMPLATE})
    env.utils = utils
    env.fallbacks = 0
    env.control_cache = {}
    env.case_no = 0
    orig = utils.run_in_subprocess

    async def counted(*a, **k):
        env.fallbacks += 1
        return await orig(*a, **k)

    utils.run_in_subprocess = counted
    # what the persistent shell itself reported for the command in flight (observability only)
    from streamflow.core.exception import WorkflowExecutionException
    from streamflow.deployment.shell import BaseShell

    env.shell_errors = []
    orig_execute = BaseShell.execute

    async def execute(self, *a, **k):
        try:
            return await orig_execute(self, *a, **k)
        except WorkflowExecutionException as e:
            env.shell_errors.append(str(e))
            raise

    BaseShell.execute = execute
    return env


async def close_env(env):
    from vf.harness.ctx import close_context

    try:
        await asyncio.wait_for(close_context(env.ctx), 30)
    except Exception:
        pass


# ------------------------------------------------------------------------------- executing one command
def _run_script(script: str, path: str, cwd: str, timeout):
    with open(path, "w", encoding="utf-8") as f:
        f.write(script)
    try:
        r = subprocess.run(["sh", path], cwd=cwd, stdin=subprocess.DEVNULL, stdout=subprocess.PIPE,
                           stderr=subprocess.STDOUT, timeout=timeout)
    except subprocess.TimeoutExpired:
        return ["timeout"]
    return ["ok", r.stdout.decode("utf-8", errors="replace").strip(), r.returncode]


async def run_sut(env, target, words, environment, workdir, timeout, capture, scratch_dir):
    """Returns (outcome, info)."""
    info = {"fallback": False, "shell_errors": []}
    f0 = env.fallbacks
    env.shell_errors = info["shell_errors"]
    if target in ("local", "shell"):
        conn, loc = (env.local, env.lloc) if target == "local" else (env.conn, env.rloc)
        coro = conn.run(loc, list(words), environment=environment, workdir=workdir, capture_output=capture, timeout=timeout)
        if target == "shell":
            out = await SG.guarded(env.guard, coro, wall=120.0)
            info["fallback"] = env.fallbacks > f0
        else:
            try:
                out = ["ok", await asyncio.wait_for(coro, 120)]
            except (asyncio.TimeoutError, TimeoutError):
                out = ["exc", "TimeoutError", ""]
            except Exception as e:
                out = ["exc", type(e).__name__, str(e)[:240]]
        if out[0] == "ok":
            r = out[1]
            out = ["ok", None, None] if r is None else ["ok", r[0], r[1]]
        elif out[0] == "exc" and (out[1] in ("TimeoutError", "CancelledError") or "imeout" in out[2]):
            out = ["timeout", out[1]]
        return out, info
    utils = env.utils
    if target == "tpl-only":
        script = env.tm.get_command(" ".join(words), "svc", environment, workdir)
    else:
        cs = utils.create_command("SlurmConnector", list(words), environment, workdir)
        script = env.tm.get_command(cs, "svc" if target == "tpl-full" else None, environment, workdir)
    info["script"] = script[-600:]
    out = await asyncio.to_thread(_run_script, script, os.path.join(scratch_dir, "job.sh"), env.cwd, timeout)
    return out, info


def tag_settled(tagdir):
    t = PR.read_tag(tagdir)
    return t["starts"] == t["ends"]



def report(sh: Shard, label, what, witness):
    """Shard keeps at most 40 witnesses per shard: store one witness per *classified* mechanism and only count
    the further ones, so that an unclassified refutation always finds room for its witness."""
    k = label or "unclassified"
    if label is not None and any((v["mechanism"] or "unclassified") == k for v in sh.violations):
        sh.violation_counts[k] = sh.violation_counts.get(k, 0) + 1
        return
    sh.violation(label, what, witness)


# ------------------------------------------------------------------------------- one case
def judge(cmd, environment, workdir, sut, ref, tag, reftag):
    """List of failed judgements: [(which, detail)]."""
    bad = []
    spec = cmd["spec"]
    expect_runs = 0 if ref[0] == "not-run" else 1
    if tag["starts"] != expect_runs:
        bad.append(("once", f"executed {tag['starts']} time(s), expected {expect_runs}"))
    for d in tag["dumps"]:
        for k, v in (environment or {}).items():
            if d["env"].get(k) != v:
                bad.append(("env", f"{k}: passed {v!r}, command saw {d['env'].get(k)!r}"))
        if workdir is not None and d["cwd"] != workdir:
            bad.append(("cwd", f"passed {workdir!r}, command ran in {d['cwd']!r}"))
        # nothing may be inherited from an earlier command of the sequence: without a workdir the command runs where
        # the fresh reference runs, and every variable that is not this command's own equals the reference's
        rd = (reftag or {}).get("dumps") or []
        if rd and reftag is not tag:
            if workdir is None and d["cwd"] != rd[0]["cwd"]:
                bad.append(("cwdleak", f"no workdir passed: fresh process runs in {rd[0]['cwd']!r}, command ran in {d['cwd']!r}"))
            own = set(environment or {})
            for k in sorted((set(d["allenv"]) | set(rd[0]["allenv"])) - own - SHELL_MAINTAINED):
                if d["allenv"].get(k) != rd[0]["allenv"].get(k):
                    bad.append(("envleak", f"variable {k} not passed to this command: fresh process sees "
                                           f"{rd[0]['allenv'].get(k)!r}, command saw {d['allenv'].get(k)!r}"))
        if d["argv"] != cmd["args"]:
            bad.append(("argv", f"passed {cmd['args']!r}, command saw {d['argv']!r}"))
    if ref[0] == "ok":
        if sut[0] != "ok":
            bad.append(("result", f"reference completed with status {ref[2]}, run() gave {sut[:2]}"))
        elif cmd["capture"]:
            if sut[2] != ref[2]:
                bad.append(("status", f"status {sut[2]} != reference {ref[2]}"))
            if spec["kind"] != "bytes":
                exp = ref[1].decode("utf-8").strip()
                if sut[1] != exp:
                    bad.append(("output", f"output differs from the fresh execution: {len(sut[1] or '')} vs {len(exp)} chars; "
                                          f"head {str(sut[1])[:80]!r} vs {exp[:80]!r}; tail {str(sut[1])[-60:]!r} vs {exp[-60:]!r}"))
        elif sut[1] is not None:
            bad.append(("result", "capture_output=False returned a value"))
    elif ref[0] == "timeout":
        if sut[0] == "ok":
            bad.append(("result", f"reference timed out, run() returned status {sut[2]}"))
    elif ref[0] == "not-run":
        if sut[0] == "ok" and sut[2] == 0:
            bad.append(("result", "working directory does not exist, run() reported status 0"))
    return bad


async def exec_cmd(env, sh, target, cmd, cdir, k, env_map=None, wd_name=None, suffix=""):
    """Run one command on the SUT; returns everything the judge needs (reference is run here too)."""
    environment = cmd["env"] if env_map is None else env_map
    wd_name = cmd["wd"] if wd_name is None else wd_name
    workdir = None
    if wd_name is not None:
        workdir = os.path.join(cdir, "wd", wd_name)
        if cmd.get("wd_missing"):
            workdir = os.path.join(cdir, "wd", "missing-dir", wd_name)
        else:
            os.makedirs(workdir, exist_ok=True)
    tagdir = os.path.join(cdir, f"sut{k}{suffix}")
    reftag = os.path.join(cdir, f"ref{k}{suffix}")
    os.makedirs(tagdir)
    os.makedirs(reftag)
    words = PR.words(env.probe, tagdir, cmd["spec"], cmd["args"])
    sut, info = await run_sut(env, target, words, environment, workdir, cmd["timeout"], cmd["capture"], tagdir)
    return {"environment": environment, "workdir": workdir, "tagdir": tagdir, "reftag": reftag, "sut": sut, "info": info}


def run_reference(env, cmd, rec):
    words = PR.words(env.probe, rec["reftag"], cmd["spec"], cmd["args"])
    return PR.reference(words, rec["environment"], rec["workdir"], cmd["timeout"])


async def settle(recs, cmds, cdir, maxwait=90.0):
    """Logical criterion: no live process still carries this case's directory on its command line (a timed-out
    command is not killed by StreamFlow and may, on a loaded machine, not even have started when run() returns)
    and every started probe has ended.  Returns False if the watchdog expired."""
    if not any(c["timeout"] for c in cmds):
        return True
    t0 = time.monotonic()
    while time.monotonic() - t0 < maxwait:
        if SG.procs_mentioning(cdir) == 0 and all(tag_settled(r["tagdir"]) for r in recs):
            return True
        await asyncio.sleep(0.1)
    return False


def hostile_value(v):
    return v != twin_value(v)


def stale_prefix_ok(sut_out, exp_out, stale_payload_text):
    """sut_out == <suffix of the timed-out command's late output> + <its end marker line> + exp_out"""
    if not isinstance(sut_out, str) or not sut_out.endswith(exp_out):
        return False
    prefix = sut_out[: len(sut_out) - len(exp_out)] if exp_out else sut_out
    m = MARK.search(prefix.rstrip() + "")
    if not m:
        return False
    before = prefix[: m.start()].strip()
    return before == "" or stale_payload_text.strip().endswith(before) or before in stale_payload_text


async def run_case(env, sh: Shard, case: dict):
    target = case["target"]
    env.case_no += 1
    cdir = os.path.join(sh.scratch, "c", f"c{env.case_no}")
    shutil.rmtree(cdir, ignore_errors=True)
    os.makedirs(cdir)
    cmds = case["cmds"]
    for c in cmds:
        for v in list((c["env"] or {}).values()) + c["args"]:
            N.assert_safe(v, allow_slash=True)
        if c["wd"] is not None:
            N.assert_safe(c["wd"])
    if target == "shell":
        await SG.recycle(env.conn)  # every sequence starts on a fresh persistent shell
    recs = []
    if case.get("concurrent"):
        sh.count("concurrent_batches")
        recs = list(await asyncio.gather(*(exec_cmd(env, sh, target, cmd, cdir, k) for k, cmd in enumerate(cmds))))
    for k, cmd in enumerate(cmds):
        if not case.get("concurrent"):
            recs.append(await exec_cmd(env, sh, target, cmd, cdir, k))
        sh.count({"local": "local_commands", "shell": "shell_commands"}.get(target, "template_commands"))
        if cmd["timeout"]:
            sh.count("timeouts_injected")
    refs = [await asyncio.to_thread(run_reference, env, cmd, rec) for cmd, rec in zip(cmds, recs)]
    if not await settle(recs, cmds, cdir):
        sh.inconclusive_because(f"processes of a timed-out command were still alive after the watchdog: {target} sequence")
        shutil.rmtree(cdir, ignore_errors=True)
        return
    last_shell_timeout = None  # index of the most recent command that timed out *on the persistent shell*
    for k, (cmd, rec, ref) in enumerate(zip(cmds, recs, refs)):
        tag, rtag = PR.read_tag(rec["tagdir"]), PR.read_tag(rec["reftag"])
        sut = rec["sut"]
        sh.count("commands_judged")
        sh.count("once_checked")
        sh.count("verbatim_checked", len(tag["dumps"]))
        if k > 0 and tag["dumps"] and rtag["dumps"]:
            sh.count("inheritance_checked")  # cwd / whole environment compared with the fresh reference, after >= 1 earlier command
            if any((c["env"] or c["wd"] is not None) for c in cmds[:k]) and (cmd["env"] is None or cmd["wd"] is None):
                sh.count("inheritance_checked_after_env_or_workdir")
        if ref[0] == "ok" and sut[0] == "ok" and cmd["capture"]:
            sh.count("result_compared")
        after_timeout = last_shell_timeout is not None and last_shell_timeout == k - 1
        if any(c["timeout"] for c in cmds[:k]):
            sh.count("commands_after_timeout_judged")
        spec = cmd["spec"]
        trivial = not cmd["env"] and cmd["wd"] is None and not cmd["args"] and spec["size"] == 0 and spec["status"] == 0
        sh.case(("cmd", target, k, cmd, [c["timeout"] for c in cmds[:k]]), nontrivial=not trivial)
        sh.count(f"payload_{spec['kind']}")
        # the reference itself must have seen the intended values, else the harness is broken
        if ref[0] != "not-run":
            rbad = [b for b in judge(cmd, rec["environment"], rec["workdir"], ["ok", None, None], ["timeout"], rtag, rtag)
                    if b[0] in ("env", "cwd", "argv")]
            if rbad or (ref[0] == "ok" and rtag["starts"] != 1):
                sh.inconclusive_because(f"reference execution did not observe the intended values: {rbad} {rtag['starts']}")
                continue
        if sut[0] == "walltimeout":
            sh.inconclusive_because(f"watchdog: {target} command {k} did not return: {cmd}")
            continue
        bad = judge(cmd, rec["environment"], rec["workdir"], sut, ref, tag, rtag)
        this_timed_out_on_shell = target == "shell" and any("imeout" in e for e in rec["info"]["shell_errors"])
        if bad:
            labels = await classify(env, sh, case, k, cmd, rec, ref, tag, bad, after_timeout,
                                    cmds[last_shell_timeout] if after_timeout else None, cdir)
            what = (f"{target} command #{k} (env={rec['environment']!r} workdir={rec['workdir']!r} timeout={cmd['timeout']}): "
                    + "; ".join(f"[{w}] {d}" for w, d in bad[:4]))
            for label in labels:
                report(sh, label, what, {"case": case, "k": k, "failed": bad[:6], "sut": _short(sut), "ref": _short(ref),
                                           "executions": tag["starts"], "info": rec["info"], "after_shell_timeout": after_timeout})
        if this_timed_out_on_shell:
            last_shell_timeout = k
    stray = sorted(os.listdir(env.cwd))
    if stray:
        sh.count("stray_files_in_cwd", len(stray))
        for s in stray:
            p = os.path.join(env.cwd, s)
            shutil.rmtree(p, ignore_errors=True) if os.path.isdir(p) and not os.path.islink(p) else os.unlink(p)
    shutil.rmtree(cdir, ignore_errors=True)


def _short(o):
    o = list(o)
    for i, x in enumerate(o):
        if isinstance(x, bytes):
            o[i] = x[:200].decode("utf-8", errors="replace")
        elif isinstance(x, str):
            o[i] = x[:200]
    return o


async def control(env, sh, case, k, cmd, cdir, twin_env: bool, twin_wd: bool, suffix: str, target=None):
    """Re-run command k alone (fresh shell) with benign twins of env values and/or workdir; True if it agrees."""
    target = target or case["target"]
    key = json.dumps([target, twin_env, twin_wd, cmd["env"], cmd["wd"], cmd.get("wd_missing"), cmd["capture"]], sort_keys=True)
    if key in env.control_cache:
        return env.control_cache[key]
    if target == "shell":
        await SG.recycle(env.conn)
    env_map = cmd["env"]
    if twin_env and env_map:
        env_map = {kk: twin_value(v) for kk, v in env_map.items()}
    wd = cmd["wd"]
    if twin_wd and wd is not None:
        wd = "tw_" + twin_value(wd)
    c2 = dict(cmd, timeout=None, spec=dict(cmd["spec"], sleep_before=0, sleep_after=0,
                                            kind="text" if cmd["spec"]["kind"] == "bytes" else cmd["spec"]["kind"]))
    rec = await exec_cmd(env, sh, target, c2, cdir, k, env_map=env_map, wd_name=wd, suffix=suffix)
    ref = await asyncio.to_thread(run_reference, env, c2, rec)
    sh.count("control_runs")
    ok = not judge(c2, rec["environment"], rec["workdir"], rec["sut"], ref, PR.read_tag(rec["tagdir"]), PR.read_tag(rec["reftag"]))
    env.control_cache[key] = ok
    return ok


async def classify(env, sh, case, k, cmd, rec, ref, tag, bad, after_timeout, stale_cmd, cdir):
    """Explicit predicates; returns a list of labels (None = unclassified)."""
    target = case["target"]
    kinds = {b[0] for b in bad}
    sut = rec["sut"]
    if kinds & {"cwdleak", "envleak"}:
        return [None]  # state inherited from an earlier command: no listed mechanism explains that
    # --- history mechanisms of the persistent shell -----------------------------------------
    if target == "shell" and cmd["timeout"] and ref[0] == "timeout" and sut[0] == "timeout" and kinds == {"once"} \
            and tag["starts"] == 2 and rec["info"]["fallback"] and len(tag["dumps"]) == 2:
        return ["C25/timeout-fallback-reexecutes"]
    if target == "shell" and after_timeout and kinds == {"output"} and ref[0] == "ok" and not rec["info"]["fallback"]:
        sp = stale_cmd["spec"]
        stale = PR.payload(sp["kind"], sp["size"], sp["seed"], sp["nl"]).decode("utf-8", errors="replace") + (sp.get("err") or "")
        if stale_prefix_ok(sut[1], ref[1].decode("utf-8").strip(), stale):
            return ["C25/stale-output-after-timeout"]
    if target == "shell" and cmd.get("wd_missing") and ref[0] == "not-run" and not rec["info"]["fallback"] \
            and tag["starts"] == 1 and kinds <= {"once", "cwd", "result"}:
        return ["C25/shell-ignores-cd-failure"]
    if cmd["spec"]["kind"] == "bytes" and cmd["spec"]["size"] > 0 and kinds == {"result"} and sut[0] == "exc" \
            and sut[1] == "UnicodeDecodeError" and ref[0] == "ok" and (target == "local" or rec["info"]["fallback"]):
        # utils.run_in_subprocess decodes strictly, the persistent shell decodes with errors="replace"
        return ["C25/non-utf8-output-raises"]
    # --- value-sensitive mechanisms (quoting) --------------------------------------------------
    if after_timeout and "output" in kinds:
        return [None]
    h_env = any(hostile_value(v) for v in (cmd["env"] or {}).values())
    h_wd = cmd["wd"] is not None and hostile_value(cmd["wd"])
    if not (h_env or h_wd):
        return [None]
    uses_create_command = target in ("local", "tpl-default", "tpl-full") or (target == "shell" and rec["info"]["fallback"])
    if not (uses_create_command or target == "tpl-only"):
        return [None]
    layer = "template" if target == "tpl-only" else "create_command"
    if kinds == {"env"} and tag["starts"] == 1 and target != "tpl-full":
        # control inside the same execution: every value without a character that is special between double
        # quotes arrived verbatim, every altered value contains one
        wrong = {b[1].split(":", 1)[0] for b in bad}
        if all(N.special_chars(cmd["env"][kk], N.DQUOTED_SPECIAL) and tag["dumps"][0]["env"].get(kk) is not None
               for kk in wrong) and \
                all(kk in wrong or not N.special_chars(v, N.DQUOTED_SPECIAL) or v == tag["dumps"][0]["env"].get(kk)
                    for kk, v in cmd["env"].items()):
            sh.count("classified_by_in-execution_control")
            return [f"C25/{layer}-unquoted-env"]
    if not await control(env, sh, case, k, cmd, cdir, True, True, "t"):
        return [None]  # the benign twin fails too: not a quoting matter
    env_culprit = h_env and (not h_wd or await control(env, sh, case, k, cmd, cdir, True, False, "e"))
    wd_culprit = h_wd and (not h_env or await control(env, sh, case, k, cmd, cdir, False, True, "w"))
    if h_env and h_wd and not env_culprit and not wd_culprit:
        env_culprit = wd_culprit = True  # each alone already breaks it
    if target == "tpl-full":
        # which layer?  the create_command layer alone is what tpl-default runs
        if await control(env, sh, case, k, cmd, cdir, False, False, "d", target="tpl-default"):
            layer = "template"
    labels = []
    if env_culprit and any(N.special_chars(v, N.DQUOTED_SPECIAL) for v in cmd["env"].values()):
        labels.append(f"C25/{layer}-unquoted-env")
    if wd_culprit and N.special_chars(cmd["wd"], N.UNQUOTED_SPECIAL):
        labels.append(f"C25/{layer}-unquoted-workdir")
    return labels or [None]



# ------------------------------------------------------------------------------- directed sequences
def _c(spec=None, args=(), env=None, wd=None, timeout=None, capture=True, **kw):
    sp = {"kind": "text", "size": 64, "seed": 7, "nl": True, "status": 0}
    sp.update(spec or {})
    sp["keys"] = sorted(env or {})
    return dict({"args": list(args), "env": env, "wd": wd, "timeout": timeout, "capture": capture, "spec": sp}, **kw)


_BENIGN_ENV = {"VF_A": "plain", "VF_B": "two words", "vf_c": ""}
_HOSTILE_ENV = {"VF_A": "a$HOME", "VF_B": "a`id`b", "vf_c": 'q"q'}
_HOSTILE_ENV2 = {"VF_A": "it's", "VF_B": "two\nid", "vf_c": "back\\"}


def _directed_seq(target):
    """benign values first (any divergence there is unclassifiable), then hostile ones, statuses >= 128,
    stderr, no-newline / multi-chunk / byte payloads, and (shell, local) a timeout followed by two commands."""
    seq = [
        _c({"status": 0, "size": 200}, env=dict(_BENIGN_ENV), wd="work.dir", args=["plain", "two words", "a$HOME `id` q'q d\"d"]),
        # benign strings only: a command with neither workdir nor environment right after one that had both must not
        # inherit anything (cwd, VF_* variables) from it; then one with only a workdir, one with only an environment
        _c({"status": 0, "size": 30, "seed": 21}, env=None, wd=None),
        _c({"status": 0, "size": 30, "seed": 22}, env=None, wd="wd"),
        _c({"status": 0, "size": 30, "seed": 23}, env={"VF_LONG_NAME_1": "only-here"}, wd=None),
        _c({"status": 0, "size": 30, "seed": 24}, env=None, wd=None),
        _c({"status": 255, "size": 70000, "kind": "utf8", "nl": False, "err": "warn: something\n"}, env={"VF_A": "üñí✓"}, wd="üñí"),
        _c({"status": 130, "size": 5, "kind": "blank"}, env=dict(_HOSTILE_ENV), wd="wd"),
        _c({"status": 3, "size": 1000}, env=dict(_HOSTILE_ENV2), wd="a b"),
        _c({"status": 0, "size": 300, "kind": "bytes", "nl": False}, env={"VF_A": "x"}, wd="wd"),
        _c({"status": 1, "size": 0}, env={"VF_A": "after-bytes"}, wd="wd"),
    ]
    if target in ("shell", "local"):
        seq += [
            _c({"status": 3, "size": 40, "sleep_before": 2.2, "seed": 11}, env={"VF_A": "slow"}, wd="wd", timeout=1),
            _c({"status": 0, "size": 120, "seed": 12}, env={"VF_A": "next"}, wd="wd"),
            _c({"status": 2, "size": 10, "seed": 13, "nl": False}, env=None, wd=None, capture=False),
            _c({"status": 4, "size": 10, "seed": 14, "nl": False, "err": "partial stderr without newline"}, env=None, wd=None),
            _c({"status": 0, "size": 64}, env={"VF_A": "x"}, wd="gone", wd_missing=True),
        ]
    if target in ("tpl-full", "tpl-only"):
        for c in seq:  # the service template always renders `cd {{ streamflow_workdir }}`
            if c["wd"] is None:
                c["wd"] = "wd"
    return {"target": target, "cmds": seq, "directed": True}


DIRECTED = [_directed_seq(t) for t in ("shell", "local", "tpl-default", "tpl-full", "tpl-only")]

# ------------------------------------------------------------------------------- driver
async def _amain(sh: Shard, cases):
    env = await make_env(sh)
    n = 0
    try:
        for case in cases:
            if n >= 1 and not case.get("directed") and sh.out_of_budget():  # start-up may eat the budget on a loaded machine: always run one
                break
            try:
                await run_case(env, sh, case)
            except N.UnsafeString as e:
                sh.inconclusive_because(f"generator produced an unsafe string: {e}")
            n += 1
            if n <= 2 and sh.shard < 2:
                sh.sample({"target": case["target"], "cmds": case["cmds"][:2]})
    finally:
        await close_env(env)
    sh.note("sequences_run", n)


def run_shard(sh: Shard) -> None:
    def cases():
        for k, c in enumerate(DIRECTED):
            if sh.mine(k):
                yield c
        i = 0
        limit = sh.pick(60, 3000)
        while i < limit:
            target = TARGETS[(i + sh.shard) % len(TARGETS)]
            rng = sh.rng("case", sh.shard, i)
            # the first round of every shard injects a timeout wherever the target has one
            yield gen_case(rng, target, sh.pick(131072, 1 << 20), timeouts=True if i < len(TARGETS) else None)
            i += 1

    asyncio.run(_amain(sh, cases()))


def replay(sh: Shard, w: dict) -> None:
    asyncio.run(_amain(sh, [w["case"]]))
