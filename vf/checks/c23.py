"""C23  Tar-stream copies are exact or fail, however the stream is chunked.

Workload on the REAL reader/writer (`streamflow.deployment.aiotarstream`, `extract_tar_stream`,
`copy_local_to_remote` / `copy_remote_to_local` / `copy_remote_to_remote`):

* chunk    archives of random trees written by GNU tar (gnu/posix/ustar/oldgnu) and `tarfile`
           (GNU/PAX/USTAR) are fed to `aiotarstream.open(mode="r")` through `ChunkStream` — a legal
           `StreamWrapper` whose `read(n)` returns 1..n bytes under a chunking policy (whole, fixed
           1/2/7/511/512/513/4096/65536, random sizes, always-short reads) — and extracted either
           with `extract_tar_stream` (what `copy_remote_to_local` does) or with the generic
           `tar.extract` loop (exercises `makefile`/`copyfileobj`/`write`).
* trunc    the same with the stream cut at every boundary class of every member (header start /
           inside header / extended header / data start / inside data / data end / padding / end of
           archive blocks / record padding).
* corrupt  single-byte corruption of a member's checksum or size field.
* write    trees written by `AioTarStream(mode="w")` (GNU/PAX/USTAR, as `copy_local_to_remote`
           does) and read back by GNU tar and by `tarfile`.
* e2e      the three connector copy routines of a shell-based remote location over real pipes,
           plus a remote reader whose process dies early (`tar ... | head -c N`).

Oracle: own tree digest on disk (c22_trees.digest: names, bytes, directories incl. empty, exec
bits, links by resolved content) against the digest computed from the tree spec; intact stream ⇒
exact and no exception; cut/corrupted stream ⇒ exact **or** exception (a reader that polls an
exhausted stream 20 000 times in a row is a spin: `SpinDetected`, with SIGALRM as backstop).
"""
from __future__ import annotations

import asyncio
import os
import shutil
import subprocess
import tarfile
import time
import traceback

from vf.common import CaseTimeout, Shard, short_tb
from vf.harness import c22_trees as T

PROPERTY = "C23"
META = {
    "text": "Extraction through StreamFlow's async tar reader reproduces the archived tree for every way the byte "
            "stream is split into reads; a cut or header-corrupted stream makes the copy raise (or is harmless) "
            "instead of silently yielding missing/partial files or never returning; archives written by the "
            "async writer are read back identically by GNU tar and tarfile, and archives written by those "
            "(GNU, PAX, USTAR, old GNU) are read identically.",
    "note": "Streams are in-memory StreamWrappers with the read contract of asyncio.StreamReader plus real pipes "
            "of a shell-based remote location; data-byte corruption is outside tar's detection ability and not "
            "generated; trees are regular files, directories, in-tree symlinks and hard links.",
    "technique": "differential tree digests under enumerated chunking/fault injection",
}

MECH_SEEK = "C23/seek-short-read"
MECH_SPIN = "C23/write-eof-spin"
MECH_TRUNC_DATA = "C23/trunc-data-silent"
MECH_TRUNC_HDR = "C23/trunc-header-silent"
MECH_TRUNC_EOF = "C23/trunc-no-eoa-marker-silent"
MECH_CORRUPT = "C23/corrupt-header-silent"


def plan(tier):
    q = tier == "quick"
    return {
        "level": "exploration",
        "shards": 16,
        "budget_s": 40 if q else 700,
        "timeout_s": 600 if q else 3000,
        "min_nontrivial": 300 if q else 6000,
        "required_counters": ["chunk_exact", "trunc_judged", "corrupt_judged", "write_interop", "e2e_exact",
                              "mon_seek_calls", "mon_header_parses"],
        "rule": "bundle = (random tree: 0..14 entries, files 0/1/511/512/513/...70000 (1 MiB in thorough), empty "
                "dirs, in-tree symlinks, hard links, unicode / >100-byte names; file or directory source; archive "
                "format among 7 writers); per bundle: every chunk policy x {extract_tar_stream, tar.extract loop}, "
                "cuts at each boundary class of each member (all in thorough, sample in quick), checksum/size "
                "corruption, AioTarStream-written archives read by GNU tar and tarfile, and end-to-end copies "
                "over real pipes. distinct = distinct (bundle, sub-case); trivial = empty tree.",
        "exhaustive": False,
        "assumptions": ["a stream read returns 1..n bytes while data remains and b'' at EOF (asyncio.StreamReader contract)",
                        "tarfile's member offsets are used only to choose cut points and to explain outcomes"],
    }


class SpinDetected(BaseException):
    pass


def report(sh: Shard, mech, what, wit, keep=2):
    """Listed mechanisms recur thousands of times in a thorough run: keep the first `keep` witnesses of each
    per shard (the count still grows) so that they can never fill the Shard's witness store (40 entries)
    and starve an unclassified refutation of its witness."""
    if mech is not None and sh.violation_counts.get(mech, 0) >= keep:
        sh.violation_counts[mech] += 1
        return
    sh.violation(mech, what, wit)


# --------------------------------------------------------------------------------------------
# monitors (installed from here, no repo hooks)


class Mon:
    installed = False
    seeks = 0
    short_seeks = 0
    hdr_parses = 0
    hdr_errors: list = []
    swallowed = None  # (exception type, archive offset) of the header error after which next() returned None

    @classmethod
    def reset(cls):
        cls.seeks = 0
        cls.short_seeks = 0
        cls.hdr_errors = []
        cls.swallowed = None


def _innermost(stream):
    seen = 0
    while hasattr(stream, "stream") and seen < 8:
        from vf.harness.c23_streams import ChunkStream

        if isinstance(stream, ChunkStream):
            return stream
        stream = stream.stream
        seen += 1
    return None


def install_monitors():
    if Mon.installed:
        return
    Mon.installed = True
    from streamflow.deployment import aiotarstream as A
    from streamflow.deployment.connector import base as B

    orig_seek = A.SeekableStreamReaderWrapper.seek

    async def seek(self, offset):
        want = offset - self.position
        cs = _innermost(self.stream)
        p0 = cs.pos if cs is not None else None
        r = await orig_seek(self, offset)
        if want > 0:
            Mon.seeks += 1
            if cs is not None and cs.pos - p0 < want and cs.pos < cs.data_len:
                Mon.short_seeks += 1  # skipped fewer bytes than asked although the stream had more
        return r

    A.SeekableStreamReaderWrapper.seek = seek

    orig_from = A.AioTarInfo.fromtarfile.__func__

    async def fromtarfile(cls, tarstream):
        Mon.hdr_parses += 1
        try:
            return await orig_from(cls, tarstream)
        except tarfile.HeaderError as e:
            Mon.hdr_errors.append((type(e).__name__, tarstream.offset))
            raise

    A.AioTarInfo.fromtarfile = classmethod(fromtarfile)

    orig_next = A.AioTarStream.next

    async def next_(self):
        n0 = len(Mon.hdr_errors)
        r = await orig_next(self)
        if r is None and len(Mon.hdr_errors) > n0:
            Mon.swallowed = Mon.hdr_errors[-1]
        return r

    A.AioTarStream.next = next_

    # real pipes: a reader that keeps polling a closed pipe never yields; count consecutive EOF reads
    orig_read = B.SubprocessStreamReaderWrapper.read

    async def read(self, size=None):
        buf = await orig_read(self, size)
        if buf:
            self._vf_eof = 0
        else:
            self._vf_eof = getattr(self, "_vf_eof", 0) + 1
            if self._vf_eof > 20000:
                raise SpinDetected("20000 consecutive reads of a pipe at EOF")
        return buf

    B.SubprocessStreamReaderWrapper.read = read


def _chunk_cls():
    from vf.harness.c23_streams import ChunkStream

    class SpinChunkStream(ChunkStream):
        consecutive_eof = 0

        async def read(self, size=None):
            buf = await super().read(size)
            if buf:
                self.consecutive_eof = 0
            else:
                self.consecutive_eof += 1
                if self.consecutive_eof > 20000:
                    raise SpinDetected("20000 consecutive reads of an exhausted stream")
            return buf

    return SpinChunkStream


# --------------------------------------------------------------------------------------------
# bundle generation

C23_NAMES = T.PLAIN + T.UNICODE + T.LONG[:2] + ["sp ace", "semi;colon", "-lead"]
TOP_NAMES = ["src", "top.d", "üñí", "T" * 120, "sp ace", "data"]
TOP_FILES = ["one.dat", "f", "é.bin", "F" * 130 + ".x", "a b.txt"]
POLICIES = [["whole"], ["fixed", 1], ["fixed", 2], ["fixed", 7], ["fixed", 511], ["fixed", 512], ["fixed", 513],
            ["fixed", 4096], ["fixed", 65536], ["random", 0, 1000], ["random", 0, 70000], ["short", 0]]
BUFSIZES = [64, 512, 4096, 65536]


def gen_bundle(sh: Shard, idx: int) -> dict:
    from vf.harness.c23_streams import FORMATS

    rng = sh.rng("bundle", idx)
    thorough = not sh.quick()
    src_kind = "file" if rng.random() < 0.25 else "dir"
    sizes = T.SIZES_SMALL + (T.SIZES_MEDIUM if rng.random() < 0.5 else [])
    if thorough and rng.random() < 0.15:
        sizes = sizes + T.SIZES_LARGE
    if src_kind == "file":
        tree = [{"p": "", "k": "f", "n": rng.choice(sizes), "s": rng.randrange(1 << 30), "x": rng.choice([0o644, 0o755, 0o600, 0o711])}]
        top = rng.choice(TOP_FILES)
    else:
        tree = T.gen_tree(rng, max_entries=14 if thorough else 9, names=C23_NAMES, sizes=sizes, symlinks=True,
                          hardlinks=True, max_total=3_000_000 if thorough else 300_000)
        top = rng.choice(TOP_NAMES)
    return {"idx": idx, "src_kind": src_kind, "tree": tree, "top": top, "fmt": rng.choice(FORMATS)}


class Bundle:
    def __init__(self, sh: Shard, b: dict):
        from vf.harness import c23_streams as S

        self.b = b
        self.base = os.path.join(sh.scratch, f"c23-{b['idx']}-{os.getpid()}")
        shutil.rmtree(self.base, ignore_errors=True)
        self.parent = os.path.join(self.base, "S")
        self.top = b["top"]
        self.src = os.path.join(self.parent, self.top)
        if b["src_kind"] == "file":
            T.materialise_file(self.src, b["tree"][0])
            e = b["tree"][0]
            import hashlib

            self.want = {".": ("f", hashlib.sha256(T.file_bytes(e)).hexdigest()[:24], e["x"] & 0o111)}
        else:
            os.makedirs(self.parent)
            T.materialise(self.src, b["tree"])
            self.want = T.expected_digest(b["tree"])
        self.data = S.build_archive(b["fmt"], self.parent, self.top, dereference=True)
        self.mm = S.member_map(self.data) if self.data is not None else None
        self.n = 0

    def newdir(self) -> str:
        self.n += 1
        d = os.path.join(self.base, f"D{self.n}")
        os.makedirs(d)
        return d

    def cleanup(self):
        shutil.rmtree(self.base, ignore_errors=True)


def norm(d):
    return None if d is None else {k: tuple(v) for k, v in d.items()}


# --------------------------------------------------------------------------------------------
# reading side


async def _extract(stream, via, src, dst, bufsize):
    from streamflow.deployment import aiotarstream
    from streamflow.deployment.connector.base import extract_tar_stream

    async with aiotarstream.open(stream=stream, mode="r", copybufsize=bufsize) as tar:
        if via == "ets":
            await extract_tar_stream(tar, src, dst, bufsize)
        else:
            async for member in tar:
                await tar.extract(member, dst, numeric_owner=True)


def run_read(sh: Shard, B: Bundle, sub: dict):
    """One reading sub-case. sub: via (ets|api), dst_mode (new|into), policy, bufsize, optional
    fault {"kind": "cut"|"corrupt", ...}.  Returns (outcome, info, got digest, cut position or None)."""
    data = B.data
    fault = sub.get("fault")
    cutpos = None
    if fault:
        data, cutpos = apply_fault(B, fault)
        if data is None:
            return "skip", "fault not applicable", None, None
    d = B.newdir()
    if sub["via"] == "api":
        dst, where = d, os.path.join(d, B.top)
    elif sub["dst_mode"] == "into":  # only for a file source: a file copied into an existing directory
        dst, where = d, os.path.join(d, B.top)
    else:
        dst = os.path.join(d, "out")
        where = dst
    stream = _chunk_cls()(data, sub["policy"])
    Mon.reset()
    outcome, info = "ok", ""
    try:
        with sh.alarm(sh.pick(25, 60)):
            asyncio.run(_extract(stream, sub["via"], B.src, dst, sub["bufsize"]))
    except SpinDetected as e:
        outcome, info = "spin", frames(e)
    except CaseTimeout as e:
        outcome, info = "alarm", str(e)[-1500:]
    except Exception as e:
        outcome, info = "raise", f"{type(e).__name__}: {str(e)[:200]}"
    got = norm(T.digest(where))
    B.last = {"stream_pos": stream.pos, "stream_len": stream.data_len, "short_reads": stream.short_reads,
              "seeks": Mon.seeks, "short_seeks": Mon.short_seeks, "swallowed": Mon.swallowed, "where": where}
    sh.count("mon_seek_calls", Mon.seeks)
    sh.count("mon_short_seeks", Mon.short_seeks)
    return outcome, info, got, cutpos


def frames(e: BaseException) -> str:
    out = []
    for fs in traceback.extract_tb(e.__traceback__):
        out.append(f"{os.path.basename(fs.filename)}:{fs.name}")
    return " > ".join(out[-8:])


def apply_fault(B: Bundle, fault: dict):
    from vf.harness import c23_streams as S
    import random

    mm = B.mm
    if fault["kind"] == "cut":
        cuts = S.cut_points(mm, len(B.data), random.Random(fault["seed"]))
        for cls, i, pos in cuts:
            name = mm[i]["name"] if i < len(mm) else None
            if cls == fault["cls"] and name == fault["member"]:
                return B.data[:pos], pos
        return None, None
    if fault["kind"] == "corrupt":
        m = next((m for m in mm if m["name"] == fault["member"]), None)
        if m is None:
            return None, None
        blk = S.first_header_block(m)
        off = blk + (148 if fault["field"] == "chksum" else 124) + fault["at"]
        c = B.data[off]
        if not (0x30 <= c <= 0x37):
            return None, None
        new = 0x30 + ((c - 0x30 + fault["delta"]) % 8)
        return B.data[:off] + bytes([new]) + B.data[off + 1:], blk
    raise ValueError(fault)


def member_key(B: Bundle, name: str) -> str:
    rel = os.path.relpath(name, B.top)
    return "." if rel == "." else rel


def prefix_outcome(B: Bundle, got, cutpos):
    """Is `got` exactly what extracting the members that lie wholly before `cutpos` gives (plus,
    possibly, the regular member containing the cut as a file holding exactly the data prefix)?
    Returns (bool, partial member name | None)."""
    got = got or {}
    want = norm(B.want)
    whole_keys, partial = set(), None
    for m in B.mm:
        hdr_done = m["offset_data"] <= cutpos
        if hdr_done and m["offset_data"] + m["size"] <= cutpos:
            whole_keys.add(member_key(B, m["name"]))
        elif hdr_done and m["isreg"] and m["size"] > 0:
            partial = m
    pkey = member_key(B, partial["name"]) if partial is not None else None
    for k in whole_keys:
        if got.get(k) != want.get(k):
            return False, None
    for k in got:
        if k not in want or (k not in whole_keys and k != pkey):
            return False, None
    if pkey is not None and pkey in got:
        where = B.last["where"]
        p = where if pkey == "." else os.path.join(where, pkey)
        if not os.path.isfile(p):
            return False, None
        with open(p, "rb") as f:
            have = f.read()
        if have != B.data[partial["offset_data"]:cutpos]:
            return False, None
        return True, partial["name"]
    return True, None


def judge_read(sh: Shard, B: Bundle, sub: dict, outcome, info, got, cutpos):
    want = norm(B.want)
    fault = sub.get("fault")
    key = ("read", B.b["idx"], B.b["fmt"], sub["via"], sub["dst_mode"], sub["policy"], sub["bufsize"], fault)
    nontrivial = len(B.mm) > (0 if B.b["src_kind"] == "file" else 1)
    sh.case(key, nontrivial=nontrivial)
    wit = {"kind": "read", "bundle": B.b, "sub": sub, "outcome": outcome, "info": info, "observed": dict(B.last, where=None),
           "cutpos": cutpos, "diff": T.diff_digests(want, got)}
    exact = got == want
    if not fault:
        if outcome == "ok" and exact:
            sh.count("chunk_exact")
            sh.count(f"chunk_exact_{sub['policy'][0]}")
            return
        mech = None
        if outcome == "alarm" and not ("aiotarstream.py" in info and ", in write" in info):
            sh.inconclusive_because(f"case alarm on an intact stream outside any known spin: {info[-400:]}")
            return
        if outcome in ("ok", "raise") and B.last["short_seeks"] > 0:
            # tight: a seek() was observed to skip fewer bytes than it recorded although the stream had more
            mech = MECH_SEEK
        report(sh, mech, f"intact {B.b['fmt']} archive read with policy {sub['policy']} via {sub['via']}: outcome={outcome} "
                           f"{info[:200]} tree {'exact' if exact else 'DIFFERS ' + str(wit['diff'])[:300]}", wit)
        return
    # faulted stream: exact or exception
    sh.count("trunc_judged" if fault["kind"] == "cut" else "corrupt_judged")
    cls = fault.get("cls", fault.get("field"))
    if outcome == "raise":
        sh.count(f"fault_raised[{cls}]")
        return
    if outcome == "ok" and exact:
        sh.count(f"fault_harmless[{cls}]")
        return
    mech = None
    if outcome == "spin":
        # tight: the exhausted stream is being polled from aiotarstream.write (copyfileobj of a member)
        if "aiotarstream.py:write" in info and B.last["stream_pos"] == B.last["stream_len"]:
            mech = MECH_SPIN
    elif outcome == "alarm":
        if "aiotarstream.py" in info and ", in write" in info:
            mech = MECH_SPIN
        else:
            sh.inconclusive_because(f"case alarm outside the known spin: {info[-400:]}")
            return
    elif outcome == "ok":
        ok, partial = prefix_outcome(B, got, cutpos)
        sw = B.last["swallowed"]
        if not ok and B.last["short_seeks"] > 0:
            mech = MECH_SEEK  # members before the fault were lost as well: the short-seek defect, observed
        elif ok:
            if fault["kind"] == "cut":
                if partial is not None:
                    mech = MECH_TRUNC_DATA
                elif sw and sw[0] == "TruncatedHeaderError" and sw[1] > 0:
                    mech = MECH_TRUNC_HDR
                elif sw and sw[0] == "EmptyHeaderError" and sw[1] > 0:
                    mech = MECH_TRUNC_EOF
                elif sw and sw[0] == "InvalidHeaderError" and B.last["short_seeks"] > 0:
                    # every byte before a cut is intact: a bad header there can only be the reader misaligned
                    # by the observed short seek
                    mech = MECH_SEEK
            elif fault["kind"] == "corrupt":
                if sw and sw[0] == "InvalidHeaderError" and sw[1] > 0:
                    mech = MECH_CORRUPT
    report(sh, mech, f"{fault['kind']} [{cls}] of {B.b['fmt']} archive at byte {cutpos}: no exception (outcome={outcome} {info[:160]}), "
                       f"tree differs: {str(wit['diff'])[:300]}", wit)


# --------------------------------------------------------------------------------------------
# writing side


async def _write_archive(src, arcname, fmt, bufsize):
    from streamflow.deployment import aiotarstream
    from vf.harness.c23_streams import SinkStream

    sink = SinkStream()
    async with aiotarstream.open(stream=sink, format=fmt, mode="w", dereference=True, copybufsize=bufsize) as tar:
        await tar.add(src, arcname=arcname)
    return sink.value(), sink.closed


def run_write(sh: Shard, B: Bundle, sub: dict):
    fmt = {"gnu": tarfile.GNU_FORMAT, "pax": tarfile.PAX_FORMAT, "ustar": tarfile.USTAR_FORMAT}[sub["wfmt"]]
    key = ("write", B.b["idx"], sub["wfmt"], sub["bufsize"], sub["reader"])
    wit = {"kind": "write", "bundle": B.b, "sub": sub}
    d = B.newdir()
    try:
        with sh.alarm(sh.pick(25, 60)):
            data, closed = asyncio.run(_write_archive(B.src, B.top, fmt, sub["bufsize"]))
    except ValueError as e:
        if sub["wfmt"] == "ustar":  # name not representable in USTAR: the writer may refuse (tarfile does too)
            sh.count("write_refused_ustar")
            return
        sh.case(key)
        report(sh, None, f"AioTarStream writer raised {type(e).__name__}: {e}", dict(wit, err=short_tb(e)))
        return
    except CaseTimeout as e:
        sh.inconclusive_because(f"writer case alarm: {str(e)[-400:]}")
        return
    except Exception as e:
        sh.case(key)
        report(sh, None, f"AioTarStream writer raised {type(e).__name__}: {str(e)[:300]}", dict(wit, err=short_tb(e)))
        return
    sh.case(key, nontrivial=len(B.b["tree"]) > 0)
    problems = []
    if len(data) % tarfile.RECORDSIZE:
        problems.append(f"archive length {len(data)} is not a multiple of the record size")
    if data[-1024:] != b"\0" * 1024:
        problems.append("archive does not end with two zero blocks")
    if not closed:
        problems.append("underlying stream not closed by the writer")
    if sub["reader"] == "gnutar":
        r = subprocess.run(["tar", "xpf", "-", "-C", d], input=data, capture_output=True)
        if r.returncode != 0 or r.stderr.strip():
            problems.append(f"GNU tar: exit {r.returncode} {r.stderr.decode(errors='replace')[:300]}")
    else:
        import io

        try:
            with tarfile.open(fileobj=io.BytesIO(data), mode="r:") as tf:
                tf.extractall(d, filter="fully_trusted")
        except Exception as e:
            problems.append(f"tarfile: {type(e).__name__}: {e}")
    got = norm(T.digest(os.path.join(d, B.top)))
    if got != norm(B.want):
        problems.append(f"tree differs: {T.diff_digests(norm(B.want), got)}")
    if problems:
        report(sh, None, f"archive written by AioTarStream ({sub['wfmt']}, copybufsize {sub['bufsize']}) read by {sub['reader']}: "
                           + "; ".join(problems)[:800], wit)
    else:
        sh.count("write_interop")
        sh.count(f"write_interop_{sub['reader']}")


class _CountingFile:
    """File object handed to the writer in place of builtins.open's: counts consecutive empty reads."""

    def __init__(self, f):
        self.f, self.empty = f, 0

    def read(self, n=-1):
        b = self.f.read(n)
        self.empty = 0 if b else self.empty + 1
        if self.empty > 20000:
            raise SpinDetected("20000 consecutive reads of a source file at EOF")
        return b

    def __enter__(self):
        return self

    def __exit__(self, *a):
        self.f.close()

    def __getattr__(self, k):
        return getattr(self.f, k)


def run_write_shrunk(sh: Shard, B: Bundle, sub: dict):
    """The source file loses its second half between `gettarinfo` (stat) and the copy of its data — what a
    file still being rewritten looks like.  The writer must fail (an archive whose header promises more
    data than follows is corrupt); it must not spin."""
    from streamflow.deployment import aiotarstream as A
    from vf.harness.c23_streams import SinkStream

    e = B.b["tree"][0]
    d = B.newdir()
    f = os.path.join(d, "shrinking.bin")
    T.materialise_file(f, e)
    key = ("write-shrunk", B.b["idx"], sub["bufsize"])
    sh.case(key)
    sh.count("write_shrunk_judged")
    orig_info, orig_open = A.AioTarStream.gettarinfo, A.bltn_open

    def gettarinfo(self, name=None, arcname=None, fileobj=None):
        ti = orig_info(self, name, arcname, fileobj)
        if name == f:
            os.truncate(f, e["n"] // 2)
        return ti

    async def go():
        sink = SinkStream()
        async with A.open(stream=sink, format=tarfile.GNU_FORMAT, mode="w", dereference=True, copybufsize=sub["bufsize"]) as tar:
            await tar.add(f, arcname="shrinking.bin")
        return sink.value()

    A.AioTarStream.gettarinfo = gettarinfo
    A.bltn_open = lambda *a, **k: _CountingFile(orig_open(*a, **k))
    outcome, info = "ok", ""
    try:
        with sh.alarm(sh.pick(25, 60)):
            asyncio.run(go())
    except SpinDetected as ex:
        outcome, info = "spin", frames(ex)
    except CaseTimeout as ex:
        outcome, info = "alarm", str(ex)[-1500:]
    except Exception as ex:
        outcome, info = "raise", f"{type(ex).__name__}: {str(ex)[:200]}"
    finally:
        A.AioTarStream.gettarinfo, A.bltn_open = orig_info, orig_open
    if outcome == "raise":
        sh.count("write_shrunk_raised")
        return
    mech = None
    if (outcome == "spin" and "aiotarstream.py:write" in info) or (outcome == "alarm" and "aiotarstream.py" in info and ", in write" in info):
        mech = MECH_SPIN
    elif outcome == "alarm":
        sh.inconclusive_because(f"writer alarm outside the known spin: {info[-400:]}")
        return
    report(sh, mech, f"source file shrank from {e['n']} to {e['n'] // 2} bytes while being archived: writer outcome={outcome} {info[:200]}",
                 {"kind": "write-shrunk", "bundle": B.b, "sub": sub, "outcome": outcome, "info": info})


# --------------------------------------------------------------------------------------------
# end to end over real pipes


class E2E:
    """One StreamFlow context with shell-based remote deployments of several transfer buffer sizes."""

    BUFS = {"rem7": 7, "rem512": 512, "rem4k": 4096, "rem64k": 65536, "remB": 65536}

    def __init__(self, sh: Shard):
        self.sh = sh
        self.loop = asyncio.new_event_loop()
        self.ctx = None
        self.locs = {}

    def start(self):
        from streamflow.core.deployment import DeploymentConfig
        from vf.harness.ctx import make_context

        async def go():
            self.ctx = make_context(os.path.join(self.sh.scratch, "c23-wd"), db="default")
            for name, buf in self.BUFS.items():
                await self.ctx.deployment_manager.deploy(DeploymentConfig(
                    name=name, type="vf-shell", config={"transferBufferSize": buf}, external=False, lazy=False))
                conn = self.ctx.deployment_manager.get_connector(name)
                self.locs[name] = (conn, next(iter((await conn.get_available_locations()).values())).location)

        self.loop.run_until_complete(go())

    def stop(self, hard=False):
        from vf.harness.ctx import close_context

        try:
            if not hard:
                self.loop.run_until_complete(asyncio.wait_for(close_context(self.ctx), 30))
        except BaseException:
            pass
        try:
            self.loop.close()
        except BaseException:
            pass

    def run(self, coro, seconds):
        with self.sh.alarm(seconds):
            return self.loop.run_until_complete(coro)


def run_e2e(sh: Shard, E: E2E, B: Bundle, sub: dict):
    """sub: route l2r|r2l|r2r, dep, dst_mode new|into, head (None or byte count: the remote reader dies early)."""
    from streamflow.deployment.connector import base as CB
    import posixpath

    d = B.newdir()
    if sub["dst_mode"] == "into":
        dst, where = d, os.path.join(d, B.top)
    else:
        nm = B.top if sub.get("keepname") else "out"
        dst = os.path.join(d, nm)
        where = dst
    conn, loc = E.locs[sub["dep"]]
    connB, locB = E.locs["remB"]
    head = sub.get("head")

    async def go():
        if sub["route"] == "l2r":
            await conn.copy_local_to_remote(B.src, dst, [loc])
        elif sub["route"] == "r2l":
            if head is None:
                await conn.copy_remote_to_local(B.src, dst, loc)
            else:
                await CB.copy_remote_to_local(
                    connector=conn, location=loc, src=B.src, dst=dst,
                    reader_command=["tar", "chf", "-", "-C", *posixpath.split(B.src), "|", "head", "-c", str(head)])
        else:
            await connB.copy_remote_to_remote(B.src, dst, [locB], source_location=loc, source_connector=conn)

    key = ("e2e", B.b["idx"], sub)
    sh.case(key, nontrivial=len(B.b["tree"]) > 0)
    Mon.reset()
    outcome, info = "ok", ""
    try:
        E.run(go(), sh.pick(30, 90))
    except SpinDetected as e:
        outcome, info = "spin", frames(e)
    except CaseTimeout as e:
        outcome, info = "alarm", str(e)[-1500:]
    except Exception as e:
        outcome, info = "raise", f"{type(e).__name__}: {str(e)[:300]}"
    got = norm(T.digest(where))
    want = norm(B.want)
    wit = {"kind": "e2e", "bundle": B.b, "sub": sub, "outcome": outcome, "info": info, "diff": T.diff_digests(want, got),
           "swallowed": Mon.swallowed}
    sh.count("mon_seek_calls", Mon.seeks)
    if outcome == "alarm" and not ("aiotarstream.py" in info and ", in write" in info):
        sh.inconclusive_because(f"e2e case alarm outside any known spin: {info[-400:]}")
        return outcome
    if head is None:
        if outcome == "ok" and got == want:
            sh.count("e2e_exact")
            sh.count(f"e2e_exact_{sub['route']}")
        else:
            report(sh, None, f"end-to-end {sub['route']} copy (transferBufferSize {E.BUFS[sub['dep']]}): outcome={outcome} {info[:200]} "
                               f"diff={str(wit['diff'])[:300]}", wit)
        return outcome
    # reader process died after `head` bytes
    sh.count("e2e_trunc_judged")
    if outcome == "raise" or (outcome == "ok" and got == want):
        sh.count("e2e_trunc_raised" if outcome == "raise" else "e2e_trunc_harmless")
        return outcome
    mech = None
    if outcome == "spin" and "aiotarstream.py:write" in info:
        mech = MECH_SPIN
    elif outcome == "alarm" and "aiotarstream.py" in info and ", in write" in info:
        mech = MECH_SPIN
    elif outcome == "alarm":
        sh.inconclusive_because(f"e2e alarm outside the known spin: {info[-400:]}")
        return outcome
    elif outcome == "ok":
        B.last = {"where": where}
        ok, partial = prefix_outcome(B, got, head) if B.b["fmt"] == "gnutar-gnu" else (False, None)
        sw = Mon.swallowed
        if ok and partial is not None:
            mech = MECH_TRUNC_DATA
        elif ok and sw and sw[1] > 0 and sw[0] == "TruncatedHeaderError":
            mech = MECH_TRUNC_HDR
        elif ok and sw and sw[1] > 0 and sw[0] == "EmptyHeaderError":
            mech = MECH_TRUNC_EOF
    report(sh, mech, f"remote reader died after {head} bytes (real pipe, r2l): no exception (outcome={outcome} {info[:160]}), "
                       f"tree differs: {str(wit['diff'])[:300]}", wit)
    return outcome


# --------------------------------------------------------------------------------------------
# driver


def sub_cases(sh: Shard, B: Bundle):
    """All sub-cases of one bundle as JSON dicts (deterministic given the bundle)."""
    from vf.harness import c23_streams as S
    import random

    b = B.b
    rng = sh.rng("subs", b["idx"])
    subs = []
    small = len(B.data) <= 65536
    isfile = b["src_kind"] == "file"
    thorough = not sh.quick()
    # 1. chunk policies
    for pol in POLICIES:
        if pol[0] == "fixed" and pol[1] <= 2 and not small:
            continue
        if pol[0] == "fixed" and pol[1] == 7 and len(B.data) > 400_000:
            continue
        pol = list(pol)
        if pol[0] in ("random", "short"):
            pol[1] = rng.randrange(1 << 30)
        vias = ["ets", "api"] if (thorough or rng.random() < 0.5) else [rng.choice(["ets", "api"])]
        for via in vias:
            dst_mode = "new"
            if via == "ets" and isfile and rng.random() < 0.5:
                dst_mode = "into"
            subs.append({"k": "read", "via": via, "dst_mode": dst_mode, "policy": pol, "bufsize": rng.choice(BUFSIZES)})
    # 2. cuts
    cuts = S.cut_points(B.mm, len(B.data), random.Random(b["idx"]))
    if not thorough and len(cuts) > 14:
        cuts = rng.sample(cuts, 14)
    for cls, i, pos in cuts:
        name = B.mm[i]["name"] if i < len(B.mm) else None
        pol = rng.choice([["whole"], ["fixed", 512], ["fixed", 4096], ["random", rng.randrange(1 << 30), 3000]])
        via = rng.choice(["ets", "ets", "api"])
        dst_mode = "into" if (via == "ets" and isfile and rng.random() < 0.5) else "new"
        subs.append({"k": "read", "via": via, "dst_mode": dst_mode, "policy": pol, "bufsize": rng.choice(BUFSIZES),
                     "fault": {"kind": "cut", "cls": cls, "member": name, "seed": b["idx"]}})
    # 3. corruption
    members = [m for m in B.mm]
    for m in (members if thorough else rng.sample(members, min(3, len(members)))):
        for field, width in (("chksum", 6), ("size", 11)):
            subs.append({"k": "read", "via": rng.choice(["ets", "api"]), "dst_mode": "new",
                         "policy": rng.choice([["whole"], ["fixed", 513]]), "bufsize": 4096,
                         "fault": {"kind": "corrupt", "field": field, "member": m["name"], "at": rng.randrange(width),
                                   "delta": rng.randint(1, 7)}})
    # 4. writer interop
    for wfmt in (["gnu", "pax", "ustar"] if thorough else ["gnu", rng.choice(["pax", "ustar"])]):
        for reader in ("gnutar", "tarfile"):
            subs.append({"k": "write", "wfmt": wfmt, "bufsize": rng.choice([1, 7, 512, 65536, None]), "reader": reader})
    if isfile and b["tree"][0]["n"] > 1:
        subs.append({"k": "write-shrunk", "bufsize": rng.choice([7, 512, 65536, None])})
    # 5. end to end (benign names only: these go through a shell and C23 runs unjailed)
    if all(c.isalnum() or c in "._-" for c in b["top"]) and not b["top"].startswith("-"):
        deps = ["rem7", "rem512", "rem4k", "rem64k"]
        if len(B.data) > 200_000:
            deps = deps[1:]
        for route in ("l2r", "r2l", "r2r"):
            dst_mode = "into" if (isfile and rng.random() < 0.4) else "new"
            # (a renamed single file remote->remote goes through `tar -O | tee`: that is C22's subject)
            subs.append({"k": "e2e", "route": route, "dep": rng.choice(deps), "dst_mode": dst_mode,
                         "keepname": rng.random() < 0.5 or (route == "r2r" and isfile)})
        if b["fmt"] == "gnutar-gnu" and B.mm:
            for cls, i, pos in rng.sample(cuts, min(2 if not thorough else 5, len(cuts))):
                dst_mode = "into" if (isfile and rng.random() < 0.5) else "new"
                subs.append({"k": "e2e", "route": "r2l", "dep": rng.choice(deps[1:]), "dst_mode": dst_mode, "head": pos,
                             "cls": cls})
    return subs


def run_bundle(sh: Shard, b: dict, E: E2E | None, only: dict | None = None):
    B = Bundle(sh, b)
    try:
        if B.data is None:
            sh.count("format_cannot_represent_tree")
            return E
        # the harness' own reference: tarfile must reproduce the tree from this archive
        subs = [only] if only is not None else sub_cases(sh, B)
        for sub in subs:
            if only is None and time.time() > sh.deadline:
                break
            if sub["k"] == "read":
                outcome, info, got, cutpos = run_read(sh, B, sub)
                if outcome == "skip":
                    continue
                judge_read(sh, B, sub, outcome, info, got, cutpos)
                if sh.shard == 0 and not sub.get("fault") and sub["policy"][0] == "short":
                    sh.sample({"kind": "chunk", "fmt": b["fmt"], "members": len(B.mm), "archive_bytes": len(B.data),
                               "policy": sub["policy"], "via": sub["via"], "outcome": outcome,
                               "short_reads_served": B.last["short_reads"], "seeks": B.last["seeks"]}, limit=1)
                if sh.shard == 1 and sub.get("fault", {}).get("kind") == "cut":
                    sh.sample({"kind": "trunc", "fmt": b["fmt"], "cut_class": sub["fault"]["cls"], "cut_at": cutpos,
                               "archive_bytes": len(B.data), "via": sub["via"], "outcome": outcome, "info": info[:120]}, limit=2)
            elif sub["k"] == "write":
                run_write(sh, B, sub)
            elif sub["k"] == "write-shrunk":
                run_write_shrunk(sh, B, sub)
            elif sub["k"] == "e2e":
                if E is None:
                    E = E2E(sh)
                    E.start()
                out = run_e2e(sh, E, B, sub)
                if out in ("spin", "alarm"):  # the loop was interrupted mid-operation: start afresh
                    E.stop(hard=True)
                    E = None
        shutil.rmtree(B.base, ignore_errors=True)
    finally:
        B.cleanup()
    return E


def run_shard(sh: Shard) -> None:
    import time

    install_monitors()
    E = E2E(sh)
    E.start()
    # the soft budget is counted from here: importing StreamFlow + building the context alone takes
    # 3 s on an idle machine and minutes on a saturated one
    sh.deadline = time.time() + sh.plan["budget_s"]
    idx = sh.shard
    n = 0
    while time.time() < sh.deadline:
        b = gen_bundle(sh, idx)
        E = run_bundle(sh, b, E)
        idx += sh.nshards
        n += 1
    sh.count("mon_header_parses", Mon.hdr_parses)
    sh.note("bundles", n)
    if E is not None:
        E.stop()


def replay(sh: Shard, w: dict) -> None:
    install_monitors()
    sub = dict(w["sub"])
    E = run_bundle(sh, w["bundle"], None, only=sub)
    sh.count("mon_header_parses", Mon.hdr_parses)
    if E is not None:
        E.stop()
