"""C13  Jobs go to the first admissible declared target.

Two workloads on the real classes, one reference (`vf.models.c13_bindings`):

* filter  — random binding configurations: 1..4 declared targets (distinct deployment/service
  pairs), chains of 1..2 `matching` filters with 1..3 (sometimes up to 6) rules x 0..3 predicates,
  string/int/bool/float job inputs.  Each filter stage of the real `MatchingBindingFilter` is run on
  the reference output of the previous stage and must return exactly the order-preserving
  sub-sequence of its input that the rule semantics defines (or raise when nothing survives).
  Target objects are allocated in a shuffled order with random heap noise in between, because
  identity-hashed objects in a `set` come out in address order.

* sched   — the real `DefaultScheduler` over `vf-hw` deployments with slot / core capacities:
  bursts of concurrent `schedule()` calls, releases at quiescent points, drain.  A shadow ledger
  fed only by boundary events (`_allocate_job` calls, the harness's own `notify_status` calls)
  gives, at the instant of every allocation, the first surviving target (reference chain, declared
  order) that has room; `JobAllocation.target` read after `schedule()` returned must be that one,
  and must in any case be a survivor.

Soundness of the order oracle: releases are only issued at quiescent points, one at a time, and
the ledger is updated synchronously when `notify_status` returns; between two releases capacity
only shrinks, so a target that has room when the job is placed on a LATER one had room when the
scheduler looked at it.  Allocation events that arrive while a `notify_status` call is in flight
are counted (`alloc_during_notify`) and not judged for order (none are expected).
"""
from __future__ import annotations

import asyncio
import gc
import inspect
import itertools
import os
import shutil

from vf.common import Shard, digest, short_tb
from vf.models.c13_bindings import (
    Ledger,
    chain_survivors,
    filter_survivors,
    first_admissible,
    in_domain,
)

PROPERTY = "C13"
MECH_SET_ORDER = "C13/matching-filter-set-order"

META = {
    "text": "Matching binding filters keep exactly the declared targets whose rules match the job's "
            "inputs, in declared order, and the scheduler places each job on the first surviving "
            "target that has room when the job is placed.",
    "note": "Reference semantics are the property statement's; capacity is counted in whole jobs by "
            "a shadow ledger fed from scheduler boundary events; releases only at quiescent points.",
    "technique": "differential testing of the real filter/scheduler against a reference model",
}

DEPS = ["d0", "d1", "d2", "d3"]
SERVICES = [None, "s1", "s2"]
PORTS = ["p0", "p1", "p2"]
VALUES = ["x", "y", "", "1", "True", "true", "1.0", "a b", "100", 0, 1, 100, True, False, 1.0, 2.5]
MATCH_POOL = ["x", "y", "", "1", "True", "true", "False", "1.0", "a b", "100", "0", "2.5", "X", " x"]


def plan(tier):
    quick = tier == "quick"
    return {
        "level": "exploration",
        "shards": 16,
        "budget_s": 40 if quick else 420,
        "timeout_s": 600 if quick else 3000,
        "min_nontrivial": 1500 if quick else 20000,
        "required_counters": ["filter_stage_judged", "alloc_judged", "alloc_order_judged_multi_free",
                              "empty_survivors_rejected"],
        "rule": "filter: random (targets, matching-filter chain, inputs); distinct = distinct configuration; "
                "non-trivial = the filter must drop something or keep >= 2 targets. sched: random capacity "
                "layouts x bursts/releases on the real scheduler; one case per placed job, distinct = "
                "(scenario, job); non-trivial = >= 2 surviving targets had room when the job was placed.",
        "exhaustive": False,
        "assumptions": [
            "predicates name existing scalar inputs, ports distinct inside a rule (the statement's domain)",
            "targets of one binding are distinct (deployment, service) pairs",
            "releases happen at quiescent points (what makes 'can host at the same time' decidable)",
        ],
    }


# --------------------------------------------------------------------------------------
# generators
# --------------------------------------------------------------------------------------
def gen_targets(rng, kmin=1):
    k = rng.choice([c for c in (1, 2, 2, 3, 3, 4, 4) if c >= kmin])
    pairs = rng.sample(list(itertools.product(DEPS, SERVICES)), k)
    if rng.random() < 0.5:  # cluster on few deployments so that one rule can keep several targets
        pool = rng.sample(DEPS, rng.randint(1, 2))
        cand = [(d, s) for d in pool for s in SERVICES]
        pairs = rng.sample(cand, min(k, len(cand)))
    return [{"dep": d, "service": s, "locations": 1} for d, s in pairs]


def gen_rule(rng, targets, value_of, hit=0.75):
    """value_of(port) -> a value the job may carry on that port"""
    if rng.random() < 0.9:
        t = rng.choice(targets)
        dep, svc = t["dep"], t["service"]
    else:
        dep, svc = rng.choice(DEPS), rng.choice(SERVICES)
    r = rng.random()
    if r < 0.45:
        tgt = dep
    elif r < 0.6:
        tgt = {"deployment": dep}
    elif r < 0.9:
        tgt = {"deployment": dep, "service": svc if svc is not None else rng.choice(SERVICES[1:])}
    else:
        tgt = {"deployment": dep, "service": rng.choice(SERVICES[1:])}
    npred = rng.choice([0, 1, 1, 1, 2, 2, 3])
    job = []
    for p in rng.sample(PORTS, npred):
        m = str(value_of(p)) if rng.random() < hit else rng.choice(MATCH_POOL)
        job.append({"port": p, "match": m})
    return {"target": tgt, "job": job}


def gen_filter_case(rng):
    targets = gen_targets(rng)
    inputs = {p: rng.choice(VALUES) for p in PORTS}
    filters = []
    for _ in range(rng.choice([1, 1, 2])):
        nr = rng.choice([1, 2, 2, 3, 3, 3, 4, 6])
        filters.append({"rules": [gen_rule(rng, targets, lambda p: inputs[p]) for _ in range(nr)]})
    order = list(range(len(targets)))
    rng.shuffle(order)
    return {"kind": "filter", "targets": targets, "inputs": inputs, "filters": filters,
            "alloc_order": order, "noise": rng.randrange(1 << 30)}


def gen_sched_case(rng):
    targets = gen_targets(rng, kmin=2)
    caps = {}
    for d in sorted({t["dep"] for t in targets}):
        caps[d] = [{"cap": rng.choice([1, 1, 2, 3]), "kind": rng.choice(["slots", "cores"])}
                   for _ in range(rng.choice([1, 1, 2]))]
    for t in targets:
        if len(caps[t["dep"]]) == 2 and rng.random() < 0.3:
            t["locations"] = 2
    pools = {"p0": rng.sample(["x", "y", "1"], 2), "p1": rng.sample([1, 2, True, "1"], 2), "p2": rng.sample([0, "", 2.5], 2)}
    njobs = rng.randint(2, 9)
    jobs = [{"inputs": {p: rng.choice(v) for p, v in pools.items()}} for _ in range(njobs)]
    filters = []
    for _ in range(rng.choice([0, 1, 1, 1, 2])):
        nr = rng.choice([2, 3, 3, 4, 6])
        filters.append({"rules": [gen_rule(rng, targets, lambda p: rng.choice(pools[p]), hit=0.9) for _ in range(nr)]})
    todo = list(range(njobs))
    rng.shuffle(todo)
    script = []
    while todo:
        n = rng.choice([1, 1, 2, 3, 4])
        script.append(["burst", todo[:n]])
        todo = todo[n:]
        while rng.random() < 0.35:
            script.append(["release", rng.randrange(1000)])
    order = list(range(len(targets)))
    rng.shuffle(order)
    return {"kind": "sched", "targets": targets, "caps": caps, "jobs": jobs, "filters": filters,
            "script": script, "alloc_order": order, "noise": rng.randrange(1 << 30),
            "jitter": rng.randrange(1 << 30)}


# --------------------------------------------------------------------------------------
# building real objects
# --------------------------------------------------------------------------------------
_keep_alive = []


def build_targets(case, deployment_of, workdir=None):
    """Target objects created in case['alloc_order'] with seeded heap noise in between; returned in
    DECLARED order."""
    import random

    from streamflow.core.deployment import Target

    r = random.Random(case["noise"])
    objs = {}
    junk = []
    for i in case["alloc_order"]:
        for _ in range(r.randrange(0, 6)):
            junk.append(bytearray(r.choice([48, 64, 80, 96, 200])))
        t = case["targets"][i]
        objs[i] = Target(deployment=deployment_of(t["dep"]), locations=t["locations"], service=t["service"],
                         workdir=workdir)
        if r.random() < 0.5:
            junk.pop(r.randrange(len(junk))) if junk else None
    _keep_alive.append(junk)
    if len(_keep_alive) > 64:
        del _keep_alive[:32]
    return [objs[i] for i in range(len(case["targets"]))]


def idx_of(objs, t):
    for i, o in enumerate(objs):
        if o is t:
            return i
    return None


def classify_order(exp, got, produced_by_matching):
    """Tight predicate of the listed defect: the matching filter kept exactly the right targets
    (same members, no duplicates, nothing foreign) but not in declared order."""
    if (produced_by_matching and None not in got and len(set(got)) == len(got)
            and sorted(got) == sorted(exp) and got != exp):
        return MECH_SET_ORDER
    return None


# --------------------------------------------------------------------------------------
# workload 1: filter stages
# --------------------------------------------------------------------------------------
async def run_filter_case(sh: Shard, case, serial=0):
    from streamflow.core.deployment import DeploymentConfig
    from streamflow.core.exception import WorkflowExecutionException
    from streamflow.core.workflow import Job, Token
    from streamflow.deployment.filter import binding_filter_classes
    from streamflow.deployment.filter.matching import MatchingBindingFilter

    if not in_domain(case):
        sh.count("out_of_domain_recorded")
        return
    dcs = {}

    def dep(name):
        if name not in dcs:
            dcs[name] = DeploymentConfig(name=name, type="vf-hw", config={}, external=True, lazy=False, workdir="/vf")
        return dcs[name]

    objs = build_targets(case, dep)
    targets, inputs = case["targets"], case["inputs"]
    job = Job(f"/c13f{serial}/0", 1, {k: Token(v) for k, v in inputs.items()}, None, None, None)
    cur = list(range(len(targets)))
    key = ("filter", digest([targets, case["filters"], inputs]))
    nontrivial = False
    for si, f in enumerate(case["filters"]):
        exp = filter_survivors(f, targets, cur, inputs)
        nontrivial = nontrivial or len(exp) >= 2 or len(exp) < len(cur)
        flt = binding_filter_classes["matching"](name=f"c13f{serial}-{si}", filters=f["rules"])
        given = [objs[i] for i in cur]
        sh.count("filter_stage_judged")
        w = dict(case, stage=si, stage_input=cur, expected=exp)
        try:
            out = await flt.get_targets(job, list(given))
        except WorkflowExecutionException:
            out = None
        except Exception as e:
            sh.violation(None, f"matching filter raised {type(e).__name__} on an in-domain job: {e}", dict(w, tb=short_tb(e)))
            break
        if not exp:
            sh.count("empty_stage")
            if out:
                sh.violation(None, f"stage {si}: no rule matches any target, yet the filter kept "
                                   f"{[idx_of(objs, t) for t in out]}", w)
            break
        if out is None:
            sh.violation(None, f"stage {si}: filter found no target although targets {exp} match", w)
            break
        got = [idx_of(objs, t) for t in out]
        if got != exp:
            mech = classify_order(exp, got, isinstance(flt, MatchingBindingFilter))
            sh.violation(mech, f"stage {si}: declared targets {cur}, rules keep {exp} (in this order); "
                               f"filter returned {got}", dict(w, got=got))
            if mech is None and sorted(x for x in got if x is not None) != sorted(exp):
                sh.count("wrong_members")
        else:
            sh.count("filter_stage_agreed")
            if len(exp) >= 2:
                sh.count("filter_order_kept_multi")
        cur = exp
    sh.case(key, nontrivial=nontrivial)
    return key


# --------------------------------------------------------------------------------------
# workload 2: the real scheduler
# --------------------------------------------------------------------------------------
class World:
    """One real context with four vf-hw deployments whose locations are re-declared per scenario."""

    def __init__(self, sh, n):
        self.sh, self.n = sh, n
        self.dir = os.path.join(sh.scratch, f"world{n}")
        self.ctx = None
        self.dcs = {}
        self.scenarios = 0

    async def open(self):
        from streamflow.core.deployment import DeploymentConfig

        from vf.harness.ctx import make_context

        self.ctx = make_context(self.dir, db="default")
        for d in DEPS:
            dc = DeploymentConfig(name=d, type="vf-hw", config={"locations": {}}, external=True, lazy=False,
                                  workdir=self.dir)
            await self.ctx.deployment_manager.deploy(dc)
            self.dcs[d] = dc
        return self

    async def close(self):
        from vf.harness.ctx import close_context

        try:
            await asyncio.wait_for(close_context(self.ctx), 30)
        except Exception:
            pass
        shutil.rmtree(self.dir, ignore_errors=True)


def _req_class():
    from streamflow.core.scheduling import Hardware, HardwareRequirement

    class OneUnit(HardwareRequirement):
        @classmethod
        async def _load(cls, row, lc):
            raise NotImplementedError

        async def _save_additional_params(self, db):
            return {}

        def eval(self, job):
            return Hardware(cores=1.0, memory=1.0)

    return OneUnit


_filter_log = {}
_filter_hook_installed = False


def install_filter_recorder():
    """records what the real matching filter returned per job (for the mechanism predicate)"""
    global _filter_hook_installed
    if _filter_hook_installed:
        return
    _filter_hook_installed = True
    from streamflow.deployment.filter.matching import MatchingBindingFilter

    orig = MatchingBindingFilter.get_targets

    async def get_targets(self, job, targets):
        out = await orig(self, job, targets)
        _filter_log.setdefault(job.name, []).append(list(out))
        return out

    get_targets.__wrapped__ = orig
    MatchingBindingFilter.get_targets = get_targets


async def run_sched_case(sh: Shard, world: World, case):
    from streamflow.core.config import BindingConfig
    from streamflow.core.deployment import FilterConfig
    from streamflow.core.exception import WorkflowExecutionException
    from streamflow.core.workflow import Job, Status, Token

    from vf import perturb
    from vf.perturb import Sched

    install_filter_recorder()
    ctx, sch = world.ctx, world.ctx.scheduler
    world.scenarios += 1
    sid = f"w{world.n}c{world.scenarios}"
    Sched.reset(case["jitter"], K=3)
    targets = case["targets"]
    # declare this scenario's locations (fresh names: nothing carries over)
    caps = {}
    for d in DEPS:
        conn = ctx.deployment_manager.get_connector(d)
        conn.locs = {}
        for k, c in enumerate(case["caps"].get(d, [])):
            name = f"{d}-{sid}-l{k}"
            conn.locs[name] = {"slots": c["cap"]} if c["kind"] == "slots" else {"cores": float(c["cap"]), "memory": 1e6}
            caps[(d, name)] = c["cap"]
    ledger = Ledger(caps)
    objs = build_targets(case, lambda d: world.dcs[d], workdir=world.dir)
    fcs = [FilterConfig(name=f"{sid}-f{i}", type="matching", config={"filters": f["rules"]})
           for i, f in enumerate(case["filters"])]
    bc = BindingConfig(targets=list(objs), filters=fcs)
    Req = _req_class()
    ckey = digest([targets, case["caps"], case["jobs"], case["filters"], case["script"]])
    names = {j: f"/{sid}/0.{j}" for j in range(len(case["jobs"]))}
    jid = {v: k for k, v in names.items()}
    surv = {j: chain_survivors(case["filters"], targets, case["jobs"][j]["inputs"])[1]
            for j in range(len(case["jobs"]))}
    st = {"inflight": False}
    snap = {}  # job -> snapshot taken at the allocation event

    orig_alloc = sch._allocate_job
    sig = inspect.signature(orig_alloc)

    def alloc_hook(*a, **k):
        b = sig.bind(*a, **k).arguments
        name = b["job"].name
        if name in jid:
            sh.count("alloc_observed")
            j = jid[name]
            ti = idx_of(objs, b["target"])
            keys = [(loc.deployment, loc.name) for loc in b["selected_locations"]]
            room = [i for i in surv[j] if ledger.can_host(targets[i])]
            snap[j] = {"target": ti, "locations": keys, "room": room, "ambiguous": st["inflight"],
                       "ledger": {f"{k[0]}/{k[1]}": [ledger.used(k), c] for k, c in ledger.caps.items()}}
            ledger.allocate(j, keys)
        return orig_alloc(*a, **k)

    sch._allocate_job = alloc_hook
    tasks = {}
    judged = set()

    def witness(j, **kw):
        return dict(case, job=j, job_inputs=case["jobs"][j]["inputs"], survivors=surv[j], **kw)

    def judge_done():
        for j, t in tasks.items():
            if j in judged or not t.done():
                continue
            judged.add(j)
            name = names[j]
            if t.cancelled():
                continue
            exc = t.exception()
            if exc is not None:
                if isinstance(exc, WorkflowExecutionException) and not surv[j] and j not in snap:
                    sh.count("empty_survivors_rejected")
                    sh.case(("sched", ckey, j), nontrivial=False)
                elif not in_domain({"filters": case["filters"], "inputs": case["jobs"][j]["inputs"]}):
                    sh.count("out_of_domain_recorded")
                else:
                    sh.violation(None, f"schedule() raised {type(exc).__name__}: {exc} although targets "
                                       f"{surv[j]} survive the filters", witness(j, tb=short_tb(exc)))
                continue
            alloc = sch.job_allocations.get(name)
            s = snap.get(j)
            if alloc is None or s is None:
                sh.inconclusive_because(f"schedule() returned for {name} but no allocation event/record was observed")
                continue
            sh.count("alloc_judged")
            got = idx_of(objs, alloc.target)
            multi = len(s["room"]) >= 2
            sh.case(("sched", ckey, j), nontrivial=multi)
            real_out = _filter_log.get(name)
            w = witness(j, got=got, at_allocation=s,
                        real_filter_output=[[idx_of(objs, t) for t in o] for o in (real_out or [])])
            if got is None or got not in surv[j]:
                sh.violation(None, f"job placed on target {got}, which is not among the targets {surv[j]} "
                                   f"that survive its binding filters", w)
                continue
            sh.count("alloc_on_survivor")
            if s["ambiguous"]:
                sh.count("alloc_during_notify")
                continue
            exp = s["room"][0] if s["room"] else None
            if exp is None:
                sh.count("ledger_sees_no_room")  # over-allocation is C10's subject, not judged here
                continue
            sh.count("alloc_order_judged")
            if multi:
                sh.count("alloc_order_judged_multi_free")
            if got != exp:
                mech = None
                if case["filters"] and real_out:
                    last = [idx_of(objs, t) for t in real_out[-1]]
                    honoured = first_admissible(last, lambda i: i in s["room"]) == got
                    if honoured:
                        mech = classify_order(surv[j], last, True)
                sh.violation(mech, f"survivors in declared order {surv[j]}; {s['room']} had room when the job was "
                                   f"placed; first admissible is {exp}, JobAllocation.target is {got}", w)
            else:
                sh.count("alloc_first_admissible")
                if multi and sh.shard < 3:
                    sh.sample({"kind": "sched", "targets": targets, "survivors": surv[j], "had_room": s["room"],
                               "placed_on": got, "filters": case["filters"], "inputs": case["jobs"][j]["inputs"]}, limit=2)

    async def release(jname_idx):
        active = sorted(ledger.active)
        if not active:
            return False
        j = active[jname_idx % len(active)]
        st["inflight"] = True
        try:
            await sch.notify_status(names[j], Status.RUNNING)
            await sch.notify_status(names[j], Status.COMPLETED)
            ledger.release(j)  # synchronously after the call returned: no waiter has run yet
        finally:
            st["inflight"] = False
        sh.count("releases")
        return True

    try:
        for op, arg in case["script"]:
            if op == "burst":
                for j in arg:
                    job = Job(names[j], 1, {k: Token(v) for k, v in case["jobs"][j]["inputs"].items()},
                              world.dir, world.dir, world.dir)
                    tasks[j] = asyncio.create_task(sch.schedule(job, bc, Req()))
            else:
                await release(arg)
            await perturb.settle()
            judge_done()
        # drain: release at quiescent points until every call has returned
        for _ in range(8 * len(case["jobs"]) + 8):
            await perturb.settle()
            judge_done()
            if all(t.done() for t in tasks.values()):
                break
            if not await release(0):
                break
        pend = [j for j, t in tasks.items() if not t.done()]
        if pend:
            sh.count("pending_at_end_recorded", len(pend))  # progress is C12's subject
            for j in pend:
                tasks[j].cancel()
            await asyncio.gather(*tasks.values(), return_exceptions=True)
        while await release(0):
            pass
        await perturb.settle()
        judge_done()
        over = ledger.over()
        if over:
            sh.count("ledger_over_capacity_recorded", len(over))
    finally:
        del sch._allocate_job
        for name in names.values():
            _filter_log.pop(name, None)
    left = [t for t in perturb.pending_engine_tasks() if "_process_target" in repr(t.get_coro())]
    return not left and not pend


# --------------------------------------------------------------------------------------
def _warm():
    """import everything first (imports take seconds on a busy machine and must not eat the case
    budget) and silence the engine's per-job warnings (re-enabled by streamflow's own import)."""
    import logging

    import streamflow.main  # noqa: F401
    import vf.harness.connectors  # noqa: F401

    logging.getLogger("streamflow").setLevel(logging.CRITICAL)


async def _main(sh: Shard):
    import time

    from vf import perturb

    _warm()
    # the soft budget starts after the imports (they take 3 s idle, 30 s+ on a loaded machine)
    t0 = time.time()
    deadline = t0 + sh.plan["budget_s"]
    # workload 1
    rng = sh.rng("filter", sh.shard)
    n_filter = sh.pick(6000, 150000)
    t_filter = sh.plan["budget_s"] * 0.4
    for n in range(n_filter):
        if time.time() - t0 > t_filter:
            break
        case = gen_filter_case(rng)
        await run_filter_case(sh, case, n)
        if n < 400 and sh.shard == 0 and len(case["targets"]) >= 3 and len(case["filters"]) == 2:
            sh.sample({k: case[k] for k in ("kind", "targets", "inputs", "filters")}, limit=1)
        if n % 500 == 0:
            gc.collect()
    sh.note("filter_phase_s", round(time.time() - t0, 2))
    t1 = time.time()
    # workload 2
    rng = sh.rng("sched", sh.shard)
    world, wn = None, 0
    n_sched = sh.pick(300, 12000)
    try:
        for n in range(n_sched):
            if time.time() > deadline and not sh.replaying:
                sh.count("stopped_by_budget")
                break
            if world is None or world.scenarios >= 40:
                if world is not None:
                    await world.close()
                wn += 1
                world = await World(sh, wn).open()
            case = gen_sched_case(rng)
            sh.count("sched_scenarios")
            try:
                # (run_quiescent's heartbeat timer is invisible to settle(); a wait_for timer is not)
                clean = await perturb.run_quiescent(run_sched_case(sh, world, case), wall_timeout=120)
            except (perturb.Deadlock, perturb.WallTimeout) as e:
                sh.inconclusive_because(f"scheduler scenario did not finish ({type(e).__name__}): "
                                        f"{str(getattr(e, 'stacks', e))[:600]}")
                clean = False
            if not clean:
                sh.count("world_rebuilt_dirty")
                await world.close()
                world = None
    finally:
        if world is not None:
            await world.close()
    sh.note("sched_phase_s", round(time.time() - t1, 2))


def run_shard(sh: Shard) -> None:
    asyncio.run(_main(sh))


def replay(sh: Shard, w: dict) -> None:
    case = {k: v for k, v in w.items() if not k.startswith("_")}

    async def go():
        import random

        _warm()
        r = random.Random(0)
        for attempt in range(40):  # set order depends on addresses: vary the allocation noise
            c = dict(case, noise=case["noise"] + attempt)
            if attempt:
                c["alloc_order"] = r.sample(case["alloc_order"], len(case["alloc_order"]))
            if case["kind"] == "filter":
                await run_filter_case(sh, c, attempt)
            else:
                world = await World(sh, attempt).open()
                try:
                    await run_sched_case(sh, world, c)
                finally:
                    await world.close()
            if sh.violations:
                break

    asyncio.run(go())
