"""C16  Recovered runs equal failure-free runs.

Workload: JSON programs over the real engine steps (pipelines 1..5, scatter/gather 1..12 elements
incl. tags >= 0.10, loops 0..6 iterations, diamonds, combinations) run with the real
RollbackFailureManager (max_retries generous, retry_delay 0) on a volatile local deployment, the
`vf-jitter` database and seeded job durations.  Faults are injected by the harness command /
schedule step / transfer step (vf/harness/c16_recovery.py) per (job, phase, kind, count):
enumerated single faults of each small shape, pairs of faults on different jobs, random k-subsets
on the larger shapes.

Oracle: the executor returns (no raise, no quiescent deadlock), exactly one output token, and its
value (file contents, compared by sha1) equals the failure-free reference run of the same program
on the engine AND the interpreter-independent denotation.

Domain restrictions (recorded, not judged):
 * the retry limit is generous (40) so that "each job fails fewer times than the limit" holds for
   the injected counts 1..3;
 * a fail-stop of kind `all` may delete the final output file itself after its producer completed
   when the failing job is a parallel sink (last loop counter job): nothing consumes it any more, no
   engine could notice -> counted as `ood_final_output_lost`.
"""
from __future__ import annotations

import os

from vf.common import Shard, digest

PROPERTY = "C16"
META = {
    "text": "For the generated shapes and every enumerated / sampled fault set, the run with the rollback "
            "failure manager returned and its single output equalled both the failure-free engine run and "
            "the denotation (file contents by sha1).",
    "note": "Trusted: the harness command/steps (modelled on tests/utils), the denotation, LocalConnector "
            "file operations.  Retry limit 40; wall-clock only as watchdog.",
    "technique": "fault enumeration + differential oracle (reference run, denotation) + quiescence detector",
}
LIMIT = 40


def plan(tier):
    q = tier == "quick"
    return {
        "level": "fault_enumeration",
        "shards": 16,
        "budget_s": 50 if q else 700,
        "timeout_s": 420 if q else 2400,
        "min_nontrivial": 60 if q else 800,
        "required_counters": ["oracle_output_compare", "faults_fired", "reference_runs", "cases_soft_or_own",
                              "cases_failstop_all", "cases_fault_sequence_on_one_job", "cases_pop_processor_outputs",
                              "cases_two_deployments"],
        "rule": "case = (shape, fault set, perturbation seed); single faults enumerated over every (job, phase in "
                "{schedule,transfer,execute}, kind in {soft, fail-stop/own, fail-stop/all}, count 1..3) of the small "
                "shapes (quick: a seeded sample, thorough: all), pairs of faults on two different jobs, random "
                "2..4-subsets on larger shapes.  Non-trivial = at least one injected fault fired; distinct = "
                "distinct (shape, fault set, seed).",
        "exhaustive": not q,
        "assumptions": ["retry limit 40 > any injected count", "volatile work directory on a local deployment",
                        "jobs after a 0-iteration loop and collateral loss of a final output are out of domain "
                        "(recorded)"],
    }


def shapes(tier):
    from vf.harness import c16_cases as C

    small = [C.pipeline(1), C.pipeline(2), C.pipeline(3), C.pipeline(4), C.pipeline(5),
             C.scatter(1), C.scatter(2), C.scatter(3), C.scatter(3, pre=False), C.scatter(2, body=2),
             C.loop(0, pre=True, post=True), C.loop(1), C.loop(2), C.loop(3), C.loop(2, pre=True, post=True),
             C.loop(1, post=True), C.diamond(1, 1), C.diamond(1, 2), C.diamond(2, 2, pre=False),
             C.diamond(1, 1, post=True),
             # outputs through PopCommandOutputProcessor; pipelines / scatter over two deployments (replicas)
             C.with_pop(C.pipeline(3)), C.with_pop(C.scatter(2)), C.two_sites(3, (2,)), C.two_sites(3, (1,)),
             C.two_sites_scatter(2)]
    large = [C.scatter(12), C.scatter(5, body=2), C.scatter(7), C.loop(4), C.loop(5, body=2), C.loop(6),
             C.loop(3, body=2, pre=True, post=True),
             C.combo_pipe_scatter_pipe(3), C.combo_scatter_loop(3, 2), C.combo_loop_scatter(3, 2),
             C.combo_scatter_diamond(3), C.combo_diamond_scatter(2)]
    if tier != "quick":
        large += [C.scatter(10, body=2), C.scatter(12, body=2), C.combo_pipe_scatter_pipe(6),
                  C.combo_scatter_loop(4, 4), C.combo_loop_scatter(4, 3)]
    return small, large


def gen_cases(sh: Shard):
    """Deterministic (seeded) list of all cases of this tier; sharded by index."""
    from vf.harness import c16_cases as C
    from vf.harness import c16_recovery as R

    small, large = shapes(sh.tier)
    rng = sh.rng("cases")
    cases = []
    # 1. single faults, enumerated over the small shapes
    for sp in small:
        for f in C.single_faults(sp):
            cases.append({"prog": sp, "faults": f, "group": "single"})
    # single faults on the large shapes: only late tags / late iterations + a sample
    for sp in large:
        jobs = [j["job"] for j in R.jobs_of(sp)]
        late = [j for j in jobs if j.rsplit(".", 1)[-1] in ("10", "11", "4", "5", "9")]
        for j in late + rng.sample(jobs, min(4, len(jobs))):
            for kind in C.KINDS:
                cases.append({"prog": sp, "group": "single-large",
                              "faults": [{"job": j, "phase": rng.choice(C.PHASES), "kind": kind,
                                          "count": rng.choice((1, 2, 3))}]})
    # 1b. fault SEQUENCES on one job across phases (recovered once with the data intact, then again after a loss),
    # optionally after an upstream fail-stop
    seq_shapes = [C.pipeline(2), C.pipeline(3), C.scatter(2), C.scatter(3), C.diamond(1, 1), C.scatter(2, body=2),
                  C.two_sites(3, (2,)), C.with_pop(C.pipeline(3))]
    names_small = {sp["shape"] for sp in small}
    for sp in seq_shapes:
        assert sp["shape"] in names_small, sp["shape"]
        for f in C.sequence_faults(sp):
            cases.append({"prog": sp, "faults": f, "group": "sequence"})
    # 2. pairs of faults on two different jobs (concurrent when the jobs are siblings)
    for sp in small + large:
        jobs = [j["job"] for j in R.jobs_of(sp)]
        if len(jobs) < 2:
            continue
        for _ in range(sh.pick(10, 60)):
            a, b = rng.sample(jobs, 2)
            kind = rng.choice(C.KINDS)
            cases.append({"prog": sp, "group": "pair", "faults": [
                {"job": a, "phase": rng.choice(C.PHASES), "kind": kind, "count": rng.choice((1, 2))},
                {"job": b, "phase": rng.choice(C.PHASES), "kind": rng.choice((kind, "soft")), "count": rng.choice((1, 2))}]})
    # 3. random k-subsets on the larger shapes
    for sp in large:
        for _ in range(sh.pick(8, 80)):
            kinds = rng.choice((("soft",), ("soft", "own"), ("soft", "own", "all")))
            cases.append({"prog": sp, "group": "subset",
                          "faults": C.random_faults(rng, sp, rng.randint(2, 4), kinds=kinds)})
    if sh.quick():
        # quick: a seeded sample; keep the deterministic region (soft/own) well represented
        rng.shuffle(cases)
    else:
        rng.shuffle(cases)
    seeds = sh.pick(1, 2)
    out = []
    for i, c in enumerate(cases):
        for k in range(seeds):
            out.append(dict(c, seed=rng.randrange(1 << 30), limit=LIMIT))
    return out


_REF: dict = {}


def reference(sh: Shard, prog):
    """Failure-free engine run of `prog` (once per shape and shard); must equal the denotation."""
    from vf.harness import c16_recovery as R

    k = digest(prog)
    if k not in _REF:
        res = R.run_sync(prog, [], os.path.join(sh.scratch, "ref"), seed=0, max_retries=LIMIT, perturb=False)
        sh.count("reference_runs")
        ok = res.status == "ok" and res.outputs == [R.denote(prog)]
        _REF[k] = (ok, R.sha1_of(res.outputs), res.step_status, res)
        if not ok:
            sh.inconclusive_because(
                f"failure-free run of shape {prog.get('shape')} differs from its denotation: status={res.status} "
                f"{res.exc_msg} outputs={res.outputs} expected={R.denote(prog)}")
    return _REF[k]


def run_case(sh: Shard, case: dict) -> None:
    from vf.harness import c16_cases as C
    from vf.harness import c16_recovery as R

    prog, faults, seed = case["prog"], case["faults"], case["seed"]
    limit = case.get("limit", LIMIT)
    ref_ok, ref_sha, ref_status, _ = reference(sh, prog)
    if not ref_ok:
        return
    res = R.run_sync(prog, faults, os.path.join(sh.scratch, "case"), seed=seed, max_retries=limit,
                     wall_timeout=sh.pick(90, 300))
    key = (prog.get("shape"), C.fault_key(faults), seed)
    nfired = C.fired(res)
    sh.case(key, nontrivial=nfired > 0)
    sh.count("faults_fired", nfired)
    sh.count("cases_failstop_all" if any(f["kind"] == "all" for f in faults) else "cases_soft_or_own")
    if len({f["job"] for f in faults}) < len(faults):
        sh.count("cases_fault_sequence_on_one_job")
    if prog.get("pop"):
        sh.count("cases_pop_processor_outputs")
    if prog.get("sites"):
        sh.count("cases_two_deployments")
    for f in faults:
        sh.count(f"phase_{f['phase']}")
    if any(f["job"].rsplit(".", 1)[-1].isdigit() and int(f["job"].rsplit(".", 1)[-1]) >= 10 and "." in f["job"].rsplit("/", 1)[-1]
           for f in faults):
        sh.count("faults_on_tags_ge_0.10")
    if len(sh.samples) < 2 and nfired and sh.shard in (0, 5):
        sh.sample({"shape": prog.get("shape"), "faults": faults, "seed": seed, "status": res.status,
                   "outputs": res.outputs, "exec_counts": res.exec_counts(), "recoveries": {j: len(v) for j, v in res.recover_calls.items()}})
    expected = R.denote(prog)

    def witness(**extra):
        return C.compact(res, prog, faults, seed, dict(extra, limit=limit, kind="c16"))

    if res.status == "walltimeout":
        sh.count("walltimeout")
        sh.inconclusive_because(f"wall-clock watchdog on {key}")
        return
    if res.status == "deadlock":
        mech = "C16/concurrent-recovery-hang" if C.is_concurrent_recovery_hang(res) else None
        sh.violation(mech, f"executor never returns (event loop quiescent) for shape {prog.get('shape')} with faults "
                           f"{C.fault_key(faults)}; open recover() calls: {res.open_recover}; starved: "
                           f"{C.starved_recovery_steps(res)[:4]}", witness(hung=res.hung))
        return
    if res.status == "raised":
        if C.is_zero_iter_unrecoverable(prog, res):
            mech = "C16/zero-iteration-loop-output-unrecoverable"
        elif C.is_scatter_join_mispaired(prog, res):
            mech = "C16/scatter-join-mispaired-after-recovery"
        elif C.is_runaway_nested_recovery(res, limit):
            mech = "C16/runaway-nested-recovery"
        else:
            mech = None
        sh.violation(mech, f"executor raised {res.exc}: {res.exc_msg} for shape {prog.get('shape')} with faults "
                           f"{C.fault_key(faults)} (every injected count < limit {limit})", witness())
        return
    sh.count("oracle_output_compare")
    good = res.n_tokens == 1 and res.outputs == [expected] and R.sha1_of(res.outputs) == ref_sha
    if good:
        if res.step_status != ref_status:
            sh.count("step_status_map_differs_from_reference")
        return
    if C.final_output_lost(res):
        sh.count("ood_final_output_lost")
        return
    if C.is_loop_output_not_reemitted(prog, res):
        mech = "C16/loop-output-not-reemitted"
    elif C.is_scatter_join_mispaired(prog, res):
        mech = "C16/scatter-join-mispaired-after-recovery"
    elif C.is_concurrent_recovery_drops_job(prog, res):
        mech = "C16/concurrent-recovery-drops-job"
    else:
        mech = None
    sh.violation(mech, f"executor returned but output differs: got {str(res.outputs)[:300]} ({res.n_tokens} tokens), "
                       f"failure-free run and denotation give {str(expected)[:300]}; shape {prog.get('shape')} faults "
                       f"{C.fault_key(faults)}", witness())


def run_shard(sh: Shard) -> None:
    import time

    import vf.harness.c16_recovery  # noqa: F401  (imports streamflow: not part of the case budget)

    t_start = time.time()
    # the soft budget counts from here; the shard's own clock (which includes interpreter start-up
    # and imports) may overrun it by at most 60 s
    def spent():
        return (time.time() - t_start > sh.plan["budget_s"]) or sh.time_left() < -150

    cases = gen_cases(sh)
    # shard by shape (one failure-free reference run per shape and shard), cases of a shard in seeded order
    names = sorted({c["prog"]["shape"] for c in cases})
    mine = [c for c in cases if sh.mine(names.index(c["prog"]["shape"]))]
    done = 0
    for case in mine:
        if not sh.replaying and spent():
            break
        run_case(sh, case)
        done += 1
    sh.note(f"shard{sh.shard}", {"planned": len(mine), "done": done, "shapes": [n for i, n in enumerate(names) if sh.mine(i)]})


def replay(sh: Shard, w: dict) -> None:
    run_case(sh, {"prog": w["prog"], "faults": w["faults"], "seed": w["seed"], "limit": w.get("limit", LIMIT)})
