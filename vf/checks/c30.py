"""C30  CWL tools receive exactly the arguments the reference runner (cwltool) passes.

Every generated CommandLineTool runs a probe (`python3 vf_probe.py ...`) that dumps what the tool
process itself sees: argv, the VF_* environment, stdin bytes (when redirected from a file), where
fd 1 / fd 2 point.  The same document + job is run by
  * the reference: cwltool `--no-container` in a separate process (vf/harness/c30_run.py), and
  * StreamFlow in-process through `streamflow.cwl.runner.main([...])` (its return value = status).
Only documents that the reference validates **and** runs successfully are compared; staged file
paths are compared by basename (staging directories differ by design).

Refuted when any observed aspect differs: status, argv, environment, stdin bytes, stdout / stderr
redirection target names and captured contents.

Classification of a refutation: a *predictor* rebuilds, from the reference observation, what the tool
would see if exactly a given set of listed defect mechanisms were at work (e.g. "the tokens of the
array binding reach `sh -c` unquoted": the reference tokens are really passed unquoted through sh;
"`export K="v"`": the value is really expanded by sh inside double quotes).  A difference is
classified only if the prediction equals StreamFlow's observation exactly; argv mechanisms are only
recognised on minimal tools (one bound input, no arguments, no ShellCommandRequirement), so a rich
tool that diverges is first shrunk.  Anything else is a VIOLATION.
"""
from __future__ import annotations

import itertools
import json
import os
import re
import shlex
import shutil
import subprocess
import time

from vf.common import Shard, digest
from vf.harness import c30_gen as G
from vf.harness import c30_run as R

PROPERTY = "C30"
META = {
    "text": "For every generated CommandLineTool that cwltool validated and ran successfully, the probe process started "
            "by StreamFlow saw the same argv, VF_* environment, stdin bytes and stdout/stderr redirections (names and "
            "captured contents) as under cwltool; divergences that match the listed quoting defects exactly (predicted by "
            "re-running the reference tokens through sh the way the defect would) are reported as known findings.",
    "note": "cwltool 3.x --no-container is trusted as the reference; local deployment only; documents the reference rejects "
            "or fails are not compared; file arguments compared by basename.",
    "technique": "differential testing against cwltool with an in-process probe tool; predictive classification of divergences",
}

MECH = {
    "composite": "C30/composite-binding-unescaped",
    "env": "C30/envvar-shell-expansion",
    "stderr": "C30/stderr-merged-into-stdout-file",
    "boolarr": "C30/boolean-array-items-emitted",
    "itemsep": "C30/item-bindings-joined-with-itemseparator",
    "boolprefix": "C30/array-prefix-dropped-when-no-item-emits",
    "arrorder": "C30/unbound-array-items-ordered-by-name",
    "dquote": "C30/bound-items-quoted-twice-with-explicit-shellquote",
}


def plan(tier):
    q = tier == "quick"
    return {
        "level": "translation_validation",
        "shards": 16,
        "budget_s": 60 if q else 900,
        "timeout_s": 900 if q else 4000,
        "jail": True,
        "min_nontrivial": 10 if q else 60,
        "required_counters": ["programs", "identical"],
        "rule": "seeded CWL v1.2 CommandLineTools running a probe: class R (rich: 1..6 bound inputs of string/int/long/float/"
                "double/boolean/enum/File/optional/array/nested array/record types with position (ints, expressions), prefix, "
                "separate, itemSeparator, valueFrom, shellQuote+ShellCommandRequirement, arguments, stdin/stdout/stderr, "
                "EnvVarRequirement, hostile strings in every quoted place), class T (minimal tool with one listed trigger and "
                "hostile content), class W (thorough only: unrestricted, shrunk before classification). Distinct = distinct "
                "(tool, job); only programs the reference ran successfully count.",
        "exhaustive": False,
        "assumptions": ["cwltool --no-container is the reference", "local deployment (LocalConnector, sh)"],
    }


# ---------------------------------------------------------------------------------------------------
# normalisation of run-specific paths
# ---------------------------------------------------------------------------------------------------
class Norm:
    def __init__(self, scratch):
        s = re.escape(os.path.realpath(scratch))
        # StreamFlow job directory / cwltool temporary outdir as a value of its own ($HOME, $TMPDIR), not as a parent
        self.job = re.compile(s + r"/streamflow/[0-9a-f]{8}-[0-9a-f]{4}-[0-9a-f]{4}-[0-9a-f]{4}-[0-9a-f]{12}(?!/)")
        self.ref_home = re.compile(s + r"/[a-z0-9_]{8}(?![a-z0-9_/])")
        self.dir = re.compile(s + r"/(?:[^/\s'\"]+/)*")

    def __call__(self, a):
        if isinstance(a, str):
            return self.dir.sub("@DIR@/", self.ref_home.sub("@JOBDIR@", self.job.sub("@JOBDIR@", a)))
        if isinstance(a, list):
            return [self(x) for x in a]
        if isinstance(a, dict):
            return {k: self(v) for k, v in a.items()}
        return a


def observe(norm: Norm, d, sub, rc, tool):
    o = R.collect(d, sub, rc, tool)
    if o["status"] == "ok":
        o["argv"] = norm(o["argv"])
        o["env"] = norm(o["env"])
    return o


# ---------------------------------------------------------------------------------------------------
# predictor: what would the tool see under a set of listed mechanisms?
# ---------------------------------------------------------------------------------------------------
# like the probe, the dumper reports through a file: the unquoted line may redirect its stdout
DUMPER = ("import json,os,sys\nopen(os.environ['VFPRED_OUT'], 'w').write(json.dumps({'argv': sys.argv[1:], "
          "'env': {k: v for k, v in os.environ.items() if k in ('VF_A', 'VF_B', 'VF_C')}}))\n")


def sh_run(scratch: str, line: str):
    """Run `line` the way LocalConnector does (sh -c) in an empty directory. -> (rc, stdout)"""
    d = os.path.join(scratch, "vf_pred")
    shutil.rmtree(d, ignore_errors=True)
    os.makedirs(d)
    outp = os.path.join(scratch, "vf_pred_out.json")
    if os.path.exists(outp):
        os.unlink(outp)
    env = {"PATH": os.environ.get("PATH", "/usr/bin:/bin"), "HOME": os.environ.get("HOME", "/"), "TMPDIR": os.environ.get("TMPDIR", "/tmp"),
           "VFPRED_OUT": outp}
    try:
        r = subprocess.run(["sh", "-c", line], cwd=d, env=env, capture_output=True, timeout=600, stdin=subprocess.DEVNULL)
        out = ""
        if os.path.exists(outp):
            with open(outp) as f:
                out = f.read()
        return r.returncode, out
    except subprocess.TimeoutExpired:
        return -1, ""
    finally:
        shutil.rmtree(d, ignore_errors=True)


def bound_inputs(tool):
    out = []
    for n, s in tool["inputs"].items():
        txt = json.dumps(s)
        if "inputBinding" in txt:
            out.append(n)
    return out


def is_minimal(tool) -> bool:
    return len(bound_inputs(tool)) == 1 and not tool.get("arguments") and "ShellCommandRequirement" not in tool["requirements"]


def composite_kind(schema) -> str | None:
    t = schema.get("type")
    if isinstance(t, str):
        return "array" if t.endswith("[]") else None
    if isinstance(t, dict):
        return t.get("type") if t.get("type") in ("array", "record") else None
    return None


def _strs(v):
    if isinstance(v, list):
        for x in v:
            yield from _strs(x)
    elif isinstance(v, dict):
        if v.get("class") == "File":
            yield "@DIR@/" + os.path.basename(v["path"])
        else:
            for x in v.values():
                yield from _strs(x)
    elif isinstance(v, bool) or v is None:
        return
    else:
        yield str(v)


def composite_candidates(tool, job) -> set:
    """Token texts that can stem from array / record bindings whose items have no binding of their own
    (items, prefixes, prefix+item, itemSeparator joins): the tokens the listed mechanism leaves unquoted."""
    cands = set()

    def array(schema_type, binding, value):
        items = list(_strs(value))
        pfx = (binding or {}).get("prefix")
        sep = (binding or {}).get("itemSeparator")
        cands.update(items)
        if pfx is not None:
            cands.add(pfx)
            cands.update(pfx + i for i in items)
        if sep is not None and isinstance(value, list):
            j = sep.join(items)
            cands.add(j)
            if pfx is not None:
                cands.add(pfx + j)
        if isinstance(schema_type, dict) and isinstance(schema_type.get("items"), dict) and isinstance(value, list):
            for sub in value:
                array(schema_type["items"], schema_type["items"].get("inputBinding"), sub)

    for name, schema in tool["inputs"].items():
        t, b, v = schema.get("type"), schema.get("inputBinding"), job.get(name)
        if v is None:
            continue
        if isinstance(t, str) and t.endswith("[]") and b is not None:
            array(t, b, v)
        elif isinstance(t, dict) and t.get("type") == "array" and (b is not None or "inputBinding" in json.dumps(t)):
            if "inputBinding" in t and isinstance(t.get("items"), str):
                if b and "prefix" in b:
                    cands.add(b["prefix"])  # items are quoted by their own binding, the outer prefix is not
            else:
                array(t, b, v)
        elif isinstance(t, dict) and t.get("type") == "record":
            if b and "prefix" in b:
                cands.add(b["prefix"])
            for fn, f in t["fields"].items():
                if isinstance(f.get("type"), str) and f["type"].endswith("[]") and "inputBinding" in f:
                    array(f["type"], f["inputBinding"], v.get(fn))
    cands.discard("")
    return cands


def twice_quoted_candidates(tool, job) -> set:
    """Tokens of bound array items below an array binding that says `shellQuote: true` explicitly (ShellCommandRequirement)."""
    cands = set()
    if "ShellCommandRequirement" not in tool["requirements"]:
        return cands
    for name, schema in tool["inputs"].items():
        t, b, v = schema.get("type"), schema.get("inputBinding"), job.get(name)
        if isinstance(t, dict) and t.get("type") == "array" and isinstance(t.get("items"), str) and "inputBinding" in t \
                and isinstance(b, dict) and b.get("shellQuote") is True and "itemSeparator" not in b and v:
            ib = t["inputBinding"]
            for x in _strs(v):
                cands.add(ib["prefix"] + x if ("prefix" in ib and ib.get("separate", True) is False) else x)
    return {c for c in cands if shlex.quote(c) != c}


def applicable(case, ref) -> list[str]:
    """Mechanisms whose syntactic trigger is present in the tool."""
    tool, job = case["tool"], case["job"]
    m = []
    if twice_quoted_candidates(tool, job) & set(ref.get("argv") or []):
        m.append("dquote")
    if ref.get("env"):
        if any(re.search(r'[$`"\\]', v) for v in ref["env"].values()):
            m.append("env")
    if "so" in tool["outputs"] and "se" not in tool["outputs"] and "stderr" not in tool:
        m.append("stderr")
    if is_minimal(tool):
        name = bound_inputs(tool)[0]
        schema = tool["inputs"][name]
        kind = composite_kind(schema)
        t = schema["type"]
        b = schema.get("inputBinding", {})
        if kind == "array" and (t == "boolean[]" or (isinstance(t, dict) and t.get("items") == "boolean" and "inputBinding" not in t)) \
                and "itemSeparator" not in b:
            m.append("boolarr")
        v = job.get(name)
        if kind == "array" and isinstance(t, dict) and "prefix" in b and "itemSeparator" not in b and isinstance(v, list) and v and (
                (t.get("items") == "boolean" and "inputBinding" in t and not any(v))  # bound boolean items, all false
                or (isinstance(t.get("items"), dict) and all(x == [] for x in v))):  # nested arrays, all empty
            m.append("boolprefix")
        if kind == "array" and isinstance(t, dict) and "inputBinding" in t and "itemSeparator" in b and isinstance(t.get("items"), str):
            m.append("itemsep")
        if kind in ("array", "record"):
            m.append("composite")
    elif "ShellCommandRequirement" not in tool["requirements"] and composite_candidates(tool, job) & set(ref.get("argv") or []):
        m.append("composite")
    return m


def predict(sh: Shard, case, ref, mechs: tuple) -> dict:
    """Observation predicted from the reference observation if exactly `mechs` are at work."""
    tool, job = case["tool"], case["job"]
    pred = {k: v for k, v in ref.items()}
    argv = list(ref["argv"])
    if "dquote" in mechs:
        twice = twice_quoted_candidates(tool, job)
        argv = [shlex.quote(a) if a in twice else a for a in argv]
    if "boolarr" in mechs:
        name = bound_inputs(tool)[0]
        argv = argv + [str(x) for x in job[name]]
    if "itemsep" in mechs:
        name = bound_inputs(tool)[0]
        ib = tool["inputs"][name]["type"]["inputBinding"]
        per_item = []
        for x in job[name]:
            if "prefix" in ib and ib.get("separate", True):
                per_item += [ib["prefix"], str(x)]
            elif "prefix" in ib:
                per_item += [ib["prefix"] + str(x)]
            else:
                per_item += [str(x)]
        sep = tool["inputs"][name]["inputBinding"]["itemSeparator"]
        joined = sep.join(str(x) for x in job[name])
        if per_item and argv[-len(per_item):] == per_item and argv[-len(per_item) - 1: -len(per_item)] == [joined]:
            argv = argv[: -len(per_item) - 1] + [sep.join(per_item)]
    if "boolprefix" in mechs:
        name = bound_inputs(tool)[0]
        if argv == [tool["inputs"][name]["inputBinding"]["prefix"]]:
            argv = []
    if "stderr" in mechs and isinstance(ref.get("stdout_content"), str):
        pred["stdout_content"] = ref["stdout_content"] + "ERR-MARK\n"
    if "env" in mechs or "composite" in mechs:
        order = list(tool["requirements"].get("EnvVarRequirement", {}).get("envDef", {}))
        items = sorted(ref["env"].items(), key=lambda kv: order.index(kv[0]) if kv[0] in order else 99)
        exports = "".join((f'export {k}="{v}" && ' if "env" in mechs else f"export {k}={shlex.quote(v)} && ") for k, v in items)
        fake_job = os.path.join(os.path.realpath(sh.scratch), "streamflow", "00000000-0000-0000-0000-000000000000")
        exports += f'export HOME="{fake_job}" && export TMPDIR="{fake_job}" && '
        raw = set(argv) if is_minimal(tool) else composite_candidates(tool, job)
        toks = " ".join(a if ("composite" in mechs and a in raw) else shlex.quote(a) for a in argv)
        dumper = os.path.join(sh.scratch, "vf_dumper.py")
        if not os.path.exists(dumper):
            with open(dumper, "w") as f:
                f.write(DUMPER)
        # same tail as create_command: a raw token can swallow or be changed by what follows it (`\\`, `#`, quotes)
        tail = (" > vfpred_stdout" if "so" in tool["outputs"] else "") + (" 2>vfpred_stderr" if "se" in tool["outputs"] else " 2>&1")
        rc, out = sh_run(sh.scratch, f"{exports}python3 {dumper} {toks}{tail}")
        sh.count("sh_predictions")
        try:
            seen = json.loads(out.strip().splitlines()[-1]) if rc == 0 else None
        except Exception:
            seen = None
        if rc == -1:
            sh.count("sh_prediction_timeouts")
            return {"status": "prediction-timeout"}
        if seen is None:
            return {"status": "failed"}
        norm = Norm(sh.scratch)
        pred["argv"], pred["env"] = norm(seen["argv"]), norm(seen["env"])
    else:
        pred["argv"] = argv
    return pred


def same(pred: dict, sf: dict) -> bool:
    if pred.get("status") == "prediction-timeout":
        return False
    if pred.get("status") != "ok" or sf.get("status") != "ok":
        return pred.get("status") != "ok" and sf.get("status") != "ok"
    keys = (set(pred) | set(sf)) - {"rc", "stray"}
    return all(pred.get(k) == sf.get(k) for k in keys)


def unbound_array_tokens(tool, job):
    """For every input that has no inputBinding itself but whose array type carries bindings at some
    nesting level (bound items, bound inner arrays): the set of token texts that input can put on the
    command line (items, prefixes, prefix+item, itemSeparator joins)."""
    out = []
    for name, schema in tool["inputs"].items():
        t, v = schema.get("type"), job.get(name)
        if "inputBinding" in schema or not (isinstance(t, dict) and t.get("type") == "array") or not v \
                or "inputBinding" not in json.dumps(t) or '"items": "boolean"' in json.dumps(t):
            continue
        cands = set(_strs(v))
        prefixes, seps = set(), set()

        def walk(tt):
            if isinstance(tt, dict):
                ib = tt.get("inputBinding") or {}
                if "prefix" in ib:
                    prefixes.add(ib["prefix"])
                if "itemSeparator" in ib:
                    seps.add(ib["itemSeparator"])
                walk(tt.get("items"))

        walk(t)

        def lists(x):
            if isinstance(x, list):
                yield x
                for y in x:
                    yield from lists(y)

        for sep in seps:
            for lst in lists(v):
                flat = list(_strs(lst))
                if flat:
                    cands.add(sep.join(flat))
        cands |= prefixes | {p + c for p in prefixes for c in list(cands)}
        cands.discard("")
        if cands:
            out.append(cands)
    return out


def moved_block(a: list, b: list, cands: set) -> bool:
    """b is a permutation of a in which only the tokens of one unbound array (`cands`) are placed
    elsewhere: those tokens keep their own order and all the other tokens keep theirs."""
    if a == b or sorted(a) != sorted(b):
        return False
    return [t for t in a if t in cands] == [t for t in b if t in cands] and \
        [t for t in a if t not in cands] == [t for t in b if t not in cands] and any(t in cands for t in a)


SHELL_CONTROL = ("||", "&&", "|", "&", ";", "(", ")", "<", ">", "`", "$(", "\n", "#", "'", '"', "\\")


def explain(sh: Shard, case, ref, sf):
    """Smallest set of listed mechanisms whose prediction equals StreamFlow's observation, or None."""
    app = applicable(case, ref)
    for n in range(1, len(app) + 1):
        for mechs in itertools.combinations(app, n):
            if same(predict(sh, case, ref, mechs), sf):
                return mechs
    # composite-binding-unescaped, failure form: a raw (unquoted) token of an array/record binding that is or
    # contains a shell control operator / quote changes how `sh` parses the WHOLE job line (`||`, `;`, `(`, an
    # unbalanced quote ...), so the job fails in ways a one-line shell prediction cannot reproduce exactly
    # (redirections, output collection).  Structural predicate: the listed mechanism is applicable, StreamFlow
    # FAILED where the reference ran, and at least one token the mechanism leaves raw carries such an operator.
    if sf.get("status") != "ok" and "composite" in app:
        raw = composite_candidates(case["tool"], case["job"]) & set(ref.get("argv") or [])
        if any(any(op in tok for op in SHELL_CONTROL) for tok in raw):
            sh.count("composite_failure_form_classified")
            return ("composite",)
    # the items of an array that is not bound itself are placed by (position, name) instead of before the named inputs
    if sf.get("status") == "ok" and "ShellCommandRequirement" not in case["tool"]["requirements"]:
        blocks = unbound_array_tokens(case["tool"], case["job"])
        nonargv = [m for m in app if m in ("env", "stderr")]
        for n in range(0, len(nonargv) + 1):
            for mechs in itertools.combinations(nonargv, n):
                pred = predict(sh, case, ref, mechs) if mechs else dict(ref)
                if pred.get("status") != "ok":
                    continue
                for block in blocks:
                    if moved_block(pred["argv"], sf["argv"], block) and same(dict(pred, argv=sf["argv"]), sf):
                        return tuple(mechs) + ("arrorder",)
    return None


# ---------------------------------------------------------------------------------------------------
# running
# ---------------------------------------------------------------------------------------------------
class Runner:
    def __init__(self, sh: Shard):
        self.sh = sh
        self.norm = Norm(sh.scratch)
        self.probe = R.write_probe(sh.scratch)
        self.n = 0

    def fresh_dir(self):
        self.n += 1
        return os.path.join(self.sh.scratch, f"c{self.n}")

    def both(self, case, d=None, ref_result=None):
        """-> (ref observation, sf observation or None, sf log)"""
        if d is None:
            d = self.fresh_dir()
            R.materialise(case, d)
        if ref_result is None:
            ref_result = R.run_reference(self.sh.scratch, [d], timeout=600)[0]
        ref = observe(self.norm, d, "ref", ref_result["rc"], case["tool"])
        if ref["status"] != "ok":
            shutil.rmtree(d, ignore_errors=True)
            return ref, None, []
        rc, log = R.run_streamflow(d)
        sf = observe(self.norm, d, "sf", rc, case["tool"])
        R.cleanup_streamflow_state(self.sh.scratch)
        shutil.rmtree(d, ignore_errors=True)
        return ref, sf, log


def diff(ref, sf):
    if sf["status"] != "ok":
        return ["status"]
    return [k for k in R.diff_keys(ref, sf) if k not in ("rc", "stray")]


def local_aspects(sh: Shard, case, ref, sf, dk):
    """-> (mechanisms that account for an aspect on the tool as it is, aspects still unexplained)."""
    local, rest = [], []
    app = applicable(case, ref)
    for k in dk:
        if k == "stdout_content" and "stderr" in app and sf.get(k) == (ref.get(k) or "") + "ERR-MARK\n":
            local.append("stderr")
        elif k == "env" and "env" in app and predict(sh, case, ref, ("env",)).get("env") == sf.get("env"):
            local.append("env")
        else:
            rest.append(k)
    return local, rest


def shrink(sh: Shard, run: Runner, case, ref, sf, target, max_runs, deadline):
    """Greedy one-removal-at-a-time shrinking; a smaller tool is kept only if every aspect in `target`
    (the aspects not yet explained) still differs."""
    cur, cur_ref, cur_sf = case, ref, sf
    runs = 0
    progress = True
    cut_short = False
    while progress:
        progress = False
        for what, cand in G.shrink_candidates(cur):
            if runs >= max_runs or time.time() >= deadline:
                cut_short = True
                break
            r2, s2, _ = run.both(cand)
            runs += 1
            sh.count("shrink_runs")
            if s2 is None:
                continue
            d2 = set(diff(r2, s2))
            if d2 and (target <= d2 or "status" in d2 or "status" in target):
                cur, cur_ref, cur_sf = cand, r2, s2
                progress = True
                break
        if cut_short:
            break
    exhausted = not cut_short  # a full pass over the candidates found nothing left to remove
    return cur, cur_ref, cur_sf, (runs, exhausted)


def judge(sh: Shard, run: Runner, case, d=None, ref_result=None, allow_shrink=True, deadline=None):
    ref, sf, log = run.both(case, d, ref_result)
    key = digest((case["tool"], case["job"]), 16)
    if sf is None:
        sh.count("reference_rejected_or_failed")
        sh.case(("rejected", key), nontrivial=False)
        return
    sh.count("programs")
    sh.count("programs_class_" + case.get("class", "?"))
    sh.case(key)
    dk = diff(ref, sf)
    if not dk:
        sh.count("identical")
        if len(sh.samples) < 2 and case.get("class") == "R" and len(ref["argv"]) >= 4:
            sh.sample({"inputs": case["tool"]["inputs"], "arguments": case["tool"].get("arguments"), "job": case["job"],
                       "argv_seen_by_both": ref["argv"], "env": ref["env"]})
        return
    sh.count("disagreements_checked")
    t_out0 = sh.counters.get("sh_prediction_timeouts", 0)
    mechs = explain(sh, case, ref, sf)
    witness_case, w_ref, w_sf = case, ref, sf
    exhausted = True
    if mechs is None and allow_shrink:
        # aspects the non-argv mechanisms account for on the original tool; the others drive the shrink
        local, rest = local_aspects(sh, case, ref, sf, dk)
        small, s_ref, s_sf, (runs, exhausted) = shrink(sh, run, case, ref, sf, set(rest), sh.pick(14, 40),
                                                      deadline or (time.time() + 300))
        if small is not case:
            m2 = explain(sh, small, s_ref, s_sf)
            witness_case, w_ref, w_sf = small, s_ref, s_sf
            if m2 is not None and set(rest) <= set(diff(s_ref, s_sf)) | ({"status"} if "status" in rest else set()):
                mechs = tuple(dict.fromkeys(list(m2) + local))
    wit = {"kind": "tool", "class": case.get("class"), "tool": witness_case["tool"], "job": witness_case["job"],
           "differs": diff(w_ref, w_sf), "reference": w_ref, "streamflow": w_sf,
           "streamflow_log": [l[-500:] for l in log if "EXECUTING command" in l or "xception" in l][-3:],
           "original_tool_digest": key}
    what = describe(w_ref, w_sf)
    if mechs is None and sh.counters.get("sh_prediction_timeouts", 0) > t_out0:
        sh.inconclusive_because("a shell prediction timed out while classifying: " + what[:300])
    elif mechs is None and case.get("class") == "W" and allow_shrink and not exhausted:
        # an unrestricted tool may combine listed mechanisms; without a finished shrink it cannot be told
        # whether this divergence is one of them: neither held nor a new violation
        sh.count("wild_divergence_not_shrunk_in_budget")
        sh.inconclusive_because("class W divergence could not be shrunk within the budget: " + what[:300])
    elif mechs is None:
        sh.violation(None, what, wit)
    else:
        for m in mechs:
            sh.violation(MECH[m], what, dict(wit, mechanisms=[MECH[x] for x in mechs]))


def describe(ref, sf):
    if sf["status"] != "ok":
        return f"StreamFlow fails ({sf.get('status')}, rc={sf.get('rc')}) on a tool the reference runs; reference argv={ref['argv']} env={ref['env']}"
    parts = []
    for k in diff(ref, sf):
        parts.append(f"{k}: reference {ref.get(k)!r} vs StreamFlow {sf.get(k)!r}")
    return "tool process saw different " + "; ".join(parts)


def fixed_corpus(probe):
    """Hand-written class R tools (one per quantified feature), judged like generated ones in every run."""
    F = lambda n: {"class": "File", "path": n}  # noqa: E731

    def tool(inputs, job, shell=False, args=None, env=None, stdin=None, stdout=None, stderr=None, so=False, se=False):
        t = G.base_tool(probe, inputs, shell)
        if args:
            t["arguments"] = args
        if env:
            t["requirements"]["EnvVarRequirement"] = {"envDef": env}
        for k, v in (("stdin", stdin), ("stdout", stdout), ("stderr", stderr)):
            if v:
                t[k] = v
        if so:
            t["outputs"]["so"] = {"type": "stdout"}
        if se:
            t["outputs"]["se"] = {"type": "stderr"}
        return {"kind": "tool", "class": "R", "fixed": True, "tool": t, "job": job}

    def trig(inputs, job):
        c = tool(inputs, job)
        c["class"] = "T"
        return c

    directed = [
        # C30/unbound-array-items-ordered-by-name: bound items / bound inner arrays of an input without a binding of its own
        trig({"k4": {"type": {"type": "array", "items": "int", "inputBinding": {}}}, "b3": {"type": "string", "inputBinding": {}},
              "z1": {"type": "int", "inputBinding": {"prefix": "--long"}}}, {"k4": [5, 6], "b3": "#c", "z1": 0}),
        trig({"m2": {"type": {"type": "array", "items": {"type": "array", "items": "string", "inputBinding": {"itemSeparator": ":"}}}},
              "i0": {"type": "string", "inputBinding": {"prefix": "-I"}}}, {"m2": [[], ["plain", "under_score"]], "i0": "be-ta"}),
        # C30/bound-items-quoted-twice-with-explicit-shellquote
        dict(tool({"z1": {"type": {"type": "array", "items": "string", "inputBinding": {"prefix": "--long"}}, "inputBinding": {"shellQuote": True}}},
                  {"z1": ["{a,b}", "a b", "abc"]}, shell=True), **{"class": "T"}),
    ]
    return directed + [
        # equal positions: inputs sort by name (document order differs), arguments by index, prefix/separate
        tool({"z": {"type": "string", "inputBinding": {"position": 1}}, "a": {"type": "string", "inputBinding": {"position": 1}},
              "m": {"type": "string", "inputBinding": {"position": 1, "prefix": "-c"}}}, {"z": "zz", "a": "it's", "m": "a b"},
             args=["M", {"valueFrom": "A1", "position": 1}, {"valueFrom": "A0", "position": 1}]),
        tool({"a": {"type": "string", "inputBinding": {"prefix": "--eq=", "separate": False}},
              "b": {"type": "string", "inputBinding": {"position": 1, "prefix": "-n"}},
              "c": {"type": "File", "inputBinding": {"position": 2, "prefix": "-f=", "separate": False}}},
             {"a": "`id`", "b": "$HOME x", "c": F("c'q.txt")}),
        tool({"a": {"type": "string", "inputBinding": {"position": 1}}, "fin": {"type": "File"}, "oname": {"type": "string"}},
             {"a": 'q"q \'s', "fin": F("fin.txt"), "oname": "r;vfnoop_4 $HOME.txt"},
             stdin="$(inputs.fin.path)", stdout="$(inputs.oname)", stderr="e'q rr.txt", so=True, se=True),
        tool({"a": {"type": "string", "inputBinding": {"shellQuote": False}}, "b": {"type": "string", "inputBinding": {"position": 1}}},
             {"a": "a b  c", "b": "x  y;vfnoop_1"}, shell=True, args=[{"valueFrom": "$HOME", "shellQuote": False, "position": 2}, {"valueFrom": "$HOME", "position": 3}]),
        tool({"a": {"type": "string[]", "inputBinding": {"position": "$(self.length)", "prefix": "-p"}}, "b": {"type": "string", "inputBinding": {"position": 1}},
              "c": {"type": "int", "inputBinding": {"position": "$(inputs.c)"}}, "d": {"type": "boolean", "inputBinding": {"prefix": "-d"}},
              "e": {"type": "boolean", "inputBinding": {"prefix": "-e"}}, "n": {"type": "string?", "inputBinding": {"prefix": "-n"}}},
             {"a": ["x", "y"], "b": "new\nline", "c": 3, "d": True, "e": False, "n": None}),
        # arrays of length 0 / 1 / 2 with itemSeparator x prefix x separate
        tool({"a0": {"type": "string[]", "inputBinding": {"position": 1, "itemSeparator": ",", "prefix": "-A", "separate": False}},
              "a1": {"type": "string[]", "inputBinding": {"position": 2, "itemSeparator": ",", "prefix": "-L", "separate": False}},
              "a2": {"type": "string[]", "inputBinding": {"position": 3, "itemSeparator": ",", "prefix": "-I", "separate": False}},
              "b1": {"type": "int[]", "inputBinding": {"position": 4, "itemSeparator": ",", "prefix": "--nums=", "separate": False}},
              "c1": {"type": "string[]", "inputBinding": {"position": 5, "itemSeparator": ":", "prefix": "-S", "separate": True}},
              "c2": {"type": "string[]", "inputBinding": {"position": 6, "itemSeparator": ":", "prefix": "-T"}},
              "d0": {"type": "string[]", "inputBinding": {"position": 7, "itemSeparator": ","}},
              "d1": {"type": "string[]", "inputBinding": {"position": 8, "itemSeparator": ","}},
              "d2": {"type": "int[]", "inputBinding": {"position": 9, "itemSeparator": "+"}},
              "e1": {"type": "string[]", "inputBinding": {"position": 10, "prefix": "-E", "separate": False}}},
             {"a0": [], "a1": ["one"], "a2": ["a", "b", "c"], "b1": [42], "c1": ["solo"], "c2": ["p", "q"], "d0": [], "d1": ["only"],
              "d2": [1, 2], "e1": ["e"]}),
        # the same through valueFrom returning arrays
        tool({"v1": {"type": "string", "inputBinding": {"position": 1, "valueFrom": "${return [self];}", "itemSeparator": ",", "prefix": "-V", "separate": False}},
              "v2": {"type": "string", "inputBinding": {"position": 2, "valueFrom": "${return [self, 'w'];}", "itemSeparator": ",", "prefix": "-W", "separate": False}},
              "v3": {"type": "string", "inputBinding": {"position": 3, "valueFrom": "${return [self];}", "itemSeparator": ":", "prefix": "-X"}}},
             {"v1": "vf1", "v2": "vf2", "v3": "vf3"}),
        # positions: small, two-digit, three-digit and negative ones, on inputs and on arguments
        tool({"pa": {"type": "string", "inputBinding": {"position": 100}}, "pb": {"type": "string", "inputBinding": {"position": 9}},
              "pc": {"type": "string", "inputBinding": {"position": 10}}, "pd": {"type": "string", "inputBinding": {"position": -2}},
              "pe": {"type": "string", "inputBinding": {"position": 2}}, "pf": {"type": "string", "inputBinding": {"position": -1}},
              "pg": {"type": "string", "inputBinding": {"position": 11, "prefix": "-g"}}, "ph": {"type": "string", "inputBinding": {"position": 1}},
              "pi": {"type": "string", "inputBinding": {}}},
             {"pa": "p100", "pb": "p9", "pc": "p10", "pd": "m2", "pe": "p2", "pf": "m1", "pg": "p11", "ph": "p1", "pi": "p0"},
             args=[{"valueFrom": "A10", "position": 10}, {"valueFrom": "A2", "position": 2}, {"valueFrom": "Am1", "position": -1},
                   {"valueFrom": "A100", "position": 100}, {"valueFrom": "A9", "position": 9}, "A0", {"valueFrom": "Am2", "position": -2}]),
        tool({"a": {"type": {"type": "array", "items": "string", "inputBinding": {"prefix": "-i"}}, "inputBinding": {"prefix": "-p"}},
              "r": {"type": {"type": "record", "name": "r_rec", "fields": {"fa": {"type": "string", "inputBinding": {"prefix": "-a", "position": 2}},
                                                                         "fb": {"type": "int", "inputBinding": {"position": 1}}}}, "inputBinding": {"position": 3}},
              "d": {"type": "double", "inputBinding": {"position": 4, "prefix": "-d=", "separate": False}}},
             {"a": ["a b", "$HOME", "#c"], "r": {"fa": "(p) *", "fb": 7}, "d": 12345.678}, env={"VF_A": "sp ace;#h *", "VF_B": "q'q"}),
    ]


def class_of(sh: Shard, i: int) -> str:
    if sh.quick():
        return "T" if i % 5 in (1, 3) else "R"
    # The unrestricted class W ("wild": no restriction on where hostile strings and nested bindings go) is an
    # opt-in exploration (VF_C30_WILD=1), not part of the registered thorough tier: at the end of the build round it
    # still met genuine divergences from cwltool that no predicate recognises yet (design_notes/C30.md, "class W
    # observations") - they have to be triaged into mechanisms before the class can run on every change.
    if os.environ.get("VF_C30_WILD") == "1":
        return ("R", "T", "W", "R", "R", "T", "R", "W")[i % 8]
    return ("R", "T", "R", "R", "T", "R", "R", "T")[i % 8]


def run_shard(sh: Shard) -> None:
    import streamflow.cwl.runner  # noqa: F401  (warm-up: imports are not part of the case budget)

    run = Runner(sh)
    t_start = time.time()
    deadline = t_start + sh.plan["budget_s"]
    rng = sh.rng("tools", sh.shard)
    i = 0
    batch = sh.pick(3, 6)
    fixed = [c for k, c in enumerate(fixed_corpus(run.probe)) if sh.mine(k)]
    while time.time() < deadline or fixed:
        cases, dirs = [], []
        for c in fixed:
            d = run.fresh_dir()
            R.materialise(c, d)
            cases.append(c)
            dirs.append(d)
            sh.count("fixed_corpus")
        fixed = []
        for _ in range(max(0, batch - len(cases))):
            c = G.gen_case(rng, run.probe, class_of(sh, i))
            i += 1
            d = run.fresh_dir()
            R.materialise(c, d)
            cases.append(c)
            dirs.append(d)
        refs = R.run_reference(sh.scratch, dirs, timeout=900)
        for c, d, r in zip(cases, dirs, refs):
            # shrinking may run past the case budget (it is what decides known vs new), but not into the watchdog
            judge(sh, run, c, d, r, allow_shrink=True,
                  deadline=max(deadline + sh.plan["budget_s"], t_start + 0.7 * sh.plan["timeout_s"]))
    sh.note("wall_s_cases", round(time.time() - t_start, 1))


def replay(sh: Shard, w: dict) -> None:
    run = Runner(sh)
    case = {"kind": "tool", "class": w.get("class"), "tool": w["tool"], "job": w["job"]}
    # the probe path recorded in the witness belongs to another scratch directory
    case["tool"]["baseCommand"] = ["python3", run.probe]
    judge(sh, run, case, allow_shrink=True, deadline=time.time() + 1800)
