"""C34  Exported run provenance (`streamflow prov`, RunCrate) is self-contained and consistent.

Workload: the generated CWL workflows of C29 (vf.harness.c29_cwlgen) plus bare tool runs, executed
by StreamFlow with a FILE database; every run that completes is exported in-process with
`streamflow prov` (streamflow/main.py `prov` context) — half of the exports also use `--add-file`.

Oracle: an independent reader of the archive (vf.harness.c34_crate: zipfile + json):
  * ro-crate-metadata.json parses, has @context and a list @graph, every entity has a unique @id;
  * every entity typed File with a relative @id is a member of the zip whose bytes have the recorded
    sha1 (and contentSize when present);
  * no `{"@id": x}` reference to a local id (not a URL) is dangling;
  * every non-null input (job file + defaults) and output (the runner's printed output object) of
    the run is represented among the `object` / `result` of the run's CreateAction: scalars and
    arrays as PropertyValue with the parameter's name and the same leaves, files by checksum and
    basename.
An export that raises instead of producing an archive refutes the property as well.
"""
from __future__ import annotations

import hashlib
import json
import logging
import os
import re

from vf.common import Shard, digest
from vf.harness import c29_cwlgen as G
from vf.harness import c29_run as R
from vf.harness import c34_crate as C

PROPERTY = "C34"
META = {
    "text": "For completed runs of generated CWL workflows and bare tools, `streamflow prov` produces an archive "
            "whose metadata is well-formed JSON-LD with unique ids, whose File entities are all present with the "
            "recorded checksum, without dangling local references, and in which every input and output value of "
            "the run can be found.",
    "note": "Only runs that StreamFlow completes are exported; run outputs are taken from the runner's printed "
            "output object, inputs from the job file and the document's defaults.",
    "technique": "export of generated runs checked by an independent archive reader",
}


def _scale():
    """VF_BUDGET_SCALE=<float> stretches the soft time budgets on a machine that is busy with other work
    (the number of documents is fixed, so the coverage of a completed run does not depend on it)."""
    try:
        return max(1.0, float(os.environ.get("VF_BUDGET_SCALE", "1")))
    except ValueError:
        return 1.0


TOTAL_DOCS = {"quick": 80, "thorough": 960}


def plan(tier):
    quick = tier == "quick"
    return {
        "level": "exploration",
        "shards": 16,
        "budget_s": int((60 if quick else 1000) * _scale()),
        "timeout_s": int((900 if quick else 5400) * _scale()),
        "jail": True,
        "min_nontrivial": 12 if quick else 150,
        "required_counters": ["exports", "file_entities_checked", "references_checked", "values_checked"],
        "rule": "one case = one completed StreamFlow run of a generated (document, job) pair, exported with "
                "`streamflow prov`; distinct = distinct document+job digest; non-trivial = the run has at least one "
                "non-null input and one non-null output.",
        "exhaustive": False,
        "assumptions": ["the run's outputs are what the runner printed; inputs are the job file plus defaults"],
    }


def _input_values(case):
    doc, job = case["wf"], case["job"]
    vals = {}
    for k, d in doc["inputs"].items():
        if k in job and job[k] is not None:
            vals[k] = job[k]
        elif isinstance(d, dict) and d.get("default") is not None:
            vals[k] = d["default"]
    return vals


def _file_sha_factory(case):
    def file_sha(v):
        cs = v.get("checksum")
        if cs:
            return cs.split("$", 1)[1]
        p = v.get("path") or ""
        if p in case["files"]:
            return hashlib.sha1(case["files"][p].encode()).hexdigest()
        with open(p, "rb") as f:
            return hashlib.sha1(f.read()).hexdigest()
    return file_sha


def _all_files(v, out):
    if isinstance(v, list):
        for x in v:
            _all_files(x, out)
    elif isinstance(v, dict):
        if v.get("class") == "File":
            out.append(v)
        else:
            for x in v.values():
                _all_files(x, out)
    return out


def _outputs_from_inputs(doc):
    """(workflow path, input name) pairs where a workflow output's source list names a workflow input"""
    hits = []
    if doc.get("class") != "Workflow":
        return hits
    for path, w in G.walk_workflows(doc):
        for d in w["outputs"].values():
            for s in G.sources_of(d):
                if "/" not in s and s in w["inputs"]:
                    hits.append((path, s))
    return hits


def classify(case, code, detail, ctx):
    doc = case["wf"]
    if code == "export-failed":
        log = detail
        if "KeyError: 'workExample'" in log and doc.get("class") != "Workflow":
            return "C34/bare-tool-keyerror-workexample"
        m = re.search(r"KeyError: '(/[^']*)'", log)
        if m and "run_crate.py:_get_source" in log:
            key = m.group(1)
            for path, name in _outputs_from_inputs(doc):
                if key == f"{path}/{name}":
                    return "C34/output-sourced-from-workflow-input"
    if code in ("input-not-represented", "output-not-represented") and isinstance(detail[1], tuple) and detail[1][0] == "name-lost":
        _, sha, bn, recorded = detail[1]
        # another File value of the same run has the same bytes and its name is the one recorded
        others = [f for f in ctx["files"] if ctx["file_sha"](f) == sha and (f.get("basename") or os.path.basename(f.get("path", ""))) != bn]
        if others and recorded and all(any((f.get("basename") or os.path.basename(f.get("path", ""))) == r for f in others) for r in recorded):
            return "C34/equal-content-files-merged"
    return None


def run_case(sh: Shard, case, hist=None):
    hist = hist if hist is not None else {}

    def bump(k):
        hist[k] = hist.get(k, 0) + 1

    timeout = int(sh.pick(150, 300) * _scale())
    d = R.fresh_dir(sh.scratch)
    try:
        R.materialize(case, d)
        sf_file = C.write_streamflow_file(d)
        extra = []
        if case.get("c34", {}).get("add_file"):
            with open(os.path.join(d, "extra.txt"), "w") as f:
                f.write("extra file for the archive\n")
            extra = ["--add-file", "src=" + os.path.join(d, "extra.txt") + ",dst=/extra.txt"]
        sf = R.run_sf(d, R.deadline, timeout, streamflow_file=sf_file, name="vfrun")
        if sf[0] != "OK":
            bump("run_" + sf[0].lower())
            sh.count("discarded_run_not_completed")
            return None
        rc, out, log = C.run_prov(d, sf_file, "vfrun", extra, R.deadline, timeout)
        if rc == "TIMEOUT":
            bump("prov_timeout")
            sh.count("discarded_prov_timeout")
            return None
        sh.count("exports")
        ins, outs = _input_values(case), {k: v for k, v in sf[1].items() if v is not None}
        key = digest([case["wf"], case["job"], case.get("c34")])
        sh.case(key, nontrivial=bool(ins) and bool(outs))
        problems = []
        counters = {}
        file_sha = _file_sha_factory(case)
        zpath = os.path.join(d, "prov", "crate.zip")
        summary = {}
        if rc != 0 or not os.path.exists(zpath):
            problems.append(("export-failed", log[:1500]))
        else:
            crate = C.Crate(zpath)
            problems.extend(crate.problems)
            if crate.meta is not None:
                crate.check_files(counters)
                crate.check_references(counters)
                problems.extend(p for p in crate.problems if p not in problems)
                if extra and ("extra.txt" not in crate.graph or "extra.txt" not in crate.names):
                    problems.append(("added-file-missing", "--add-file src=extra.txt,dst=/extra.txt: no entity / member `extra.txt`"))
                me, acts = crate.main_action()
                if not acts:
                    problems.append(("main-action", f"no CreateAction with instrument {me!r} (the crate's mainEntity)"))
                else:
                    objs = [r for a in acts for r in a.get("object", [])]
                    ress = [r for a in acts for r in a.get("result", [])]
                    for name, v in ins.items():
                        sh.count("values_checked")
                        ok, why = crate.find_value(objs, name, v, file_sha)
                        if not ok:
                            problems.append(("input-not-represented", (name, why)))
                    for name, v in outs.items():
                        sh.count("values_checked")
                        ok, why = crate.find_value(ress, name, v, file_sha)
                        if not ok:
                            problems.append(("output-not-represented", (name, why)))
                summary = {"entities": len(crate.graph), "zip_members": len(crate.names),
                           "file_entities": counters.get("file_entities", 0), "references": counters.get("references", 0)}
            sh.count("file_entities_checked", counters.get("file_entities", 0))
            sh.count("references_checked", counters.get("references", 0))
        if not problems:
            bump("consistent")
            if len(sh.samples) < 2:
                sh.sample({"document_digest": key, "class": case["wf"]["class"], "features": case["meta"]["features"][:12],
                           "inputs": list(ins), "outputs": list(outs), "crate": summary, "add_file": bool(extra), "verdict": "consistent"})
            return []
        ctx = {"files": _all_files([ins, outs], []), "file_sha": file_sha}
        seen = set()
        for code, detail in problems:
            mech = classify(case, code, detail, ctx)
            if (mech or code) in seen:
                continue
            seen.add(mech or code)
            bump("known:" + mech if mech else "UNCLASSIFIED:" + code)
            sh.violation(mech, f"{code}: {json.dumps(detail, default=list)[:900]}",
                         {"case_json": json.dumps(case), "code": code, "detail": json.loads(json.dumps(detail, default=list)),
                          "inputs": ins, "outputs": json.loads(json.dumps(outs))})
        return problems
    finally:
        R.cleanup(d)


def gen(sh, n):
    rng = sh.rng("doc", n)
    case = G.gen_tool_case(rng, n) if rng.random() < 0.15 else G.gen_case(rng, n)
    case["c34"] = {"add_file": rng.random() < 0.5}
    return case


def run_shard(sh: Shard) -> None:
    logging.getLogger("asyncio").setLevel(logging.CRITICAL)
    ndocs = -(-TOTAL_DOCS[sh.tier] // sh.nshards)
    hist, feats = {}, {}
    done = 0
    # directed corpus first: Directory outputs with same-basename files in different sub-directories
    for i, case in enumerate(G.directed_cases_c34()):
        if sh.mine(i):
            case["c34"] = {"add_file": i % 2 == 0}
            sh.count("directed_runs")
            res = run_case(sh, case, hist)
            if res is None:
                res = run_case(sh, case, hist)  # timing dependent run / interrupted: repeated once
            if res is not None:
                for f in case["meta"]["features"]:
                    feats[f] = feats.get(f, 0) + 1
    for i in range(ndocs * 3):
        # the soft budget stops a shard only after its first two cases (a busy machine must not starve the minimum)
        if done >= ndocs or (sh.out_of_budget() and done >= 2):
            break
        n = sh.shard + sh.nshards * i
        case = gen(sh, n)
        res = run_case(sh, case, hist)
        if res is not None:
            done += 1
            for f in case["meta"]["features"]:
                feats[f] = feats.get(f, 0) + 1
    sh.note("outcomes", hist)
    sh.note("features_of_exported_runs", feats)


def replay(sh: Shard, w: dict) -> None:
    logging.getLogger("asyncio").setLevel(logging.CRITICAL)
    # the case travels as a JSON string: vf.common.jsonable truncates structures deeper than 12 levels
    run_case(sh, json.loads(w["case_json"]) if "case_json" in w else w["case"])
