"""C26  Deployments follow a safe lifecycle under concurrent requests.

Workload: the REAL DefaultDeploymentManager (and FutureConnector for lazy deployments) drives
instrumented fake connectors (vf/harness/c26_fake.py) through phases of concurrent requests
{deploy x, undeploy x, undeploy_all, first use of a lazy x} over <= 3 deployments (single, a->b,
a->b->c, a->b & c->b; every lazy/eager assignment; wrappers that do / do not touch their inner
connector while deploying; scripted deploy failures).  Every fake deploy/undeploy takes a scripted
number of event-loop yields and every request starts after a scripted number of yields: enumerating
those numbers over 0..2 enumerates the interleavings the program can have.

Oracle (independent of the manager's bookkeeping): a lifecycle automaton per connector *instance*
over the fakes' call log (logical clock) joined with the request call/return records:

  R1  an instance's deploy is called only from {new, down, failed}; when it is called no other
      instance of the same deployment name is in {deploying, up}            (deployed at most once)
  R2  an eager `deploy x` / a first use of a lazy `x` that returns normally has an instance of x
      that was `up` at some instant of the request                        (returns only after deploy)
  R3  when an instance's undeploy is called no wrapper instance deployed on top of that very
      instance is in {deploying, up}; undeploy is never called on an instance that is deploying,
      undeploying or already undeployed                   (inner never undeployed under a live wrapper)
  R4  when an `undeploy_all` that is not overlapped by a deploy/use request returns, every instance
      whose deploy completed before the call began is `down` and was undeployed exactly once; the
      same holds for the closing `undeploy_all` of every scenario            (exactly once, no leak)
  R5  no request is pending when the event loop is provably quiescent        (fail rather than hang)

Recorded, not judged (outside the statement): an instance starting to deploy while an older
instance of the same name is still undeploying; a wrapper starting to deploy before its inner
connector is up; requests raising without an injected failure; undeploy failures.
"""
from __future__ import annotations

import asyncio
import collections
import itertools
import os

from vf.common import Shard, digest, short_tb

PROPERTY = "C26"
META = {
    "text": "Under every enumerated / sampled interleaving of deploy, undeploy, undeploy_all and lazy "
            "first-use requests the real deployment manager deploys each connector at most once while "
            "live, answers deploy requests only after the connector is up, never undeploys a connector "
            "under a live wrapper, undeploys every live connector exactly once and never leaves a "
            "request hanging after a failure.",
    "note": "Connectors are instrumented fakes (time = event-loop yields); only interleavings reachable "
            "with 0..2 (random: 0..4) yields per operation and per request start are explored.",
    "technique": "bounded-exhaustive interleaving enumeration + lifecycle automaton over a call log",
}

M_A = "C26/undeploy-frees-inner-of-live-middle"
M_B = "C26/failed-wrapper-pins-inner"
M_C = "C26/inner-deploy-exception-leaves-waiters"
M_D = "C26/undeploy-during-lazy-deploy-leaks"
M_E = "C26/redeploy-during-undeploy"
M_F = "C26/undeploy-waiting-on-failed-deploy-clears-event"
M_G = "C26/racing-undeploy-keyerror-aborts-cleanup"


def plan(tier):
    quick = tier == "quick"
    return {
        "level": "exploration",
        "shards": 16,
        "budget_s": 45 if quick else 600,
        "timeout_s": 600 if quick else 3000,
        "min_nontrivial": 2000 if quick else 50000,
        "required_counters": ["automaton_events", "r2_returns_judged", "r3_undeploys_judged",
                              "r4_undeploy_all_judged", "quiescence_checked"],
        "rule": "a case = (topology, lazy flags, touch flag, scripted failures, phases of concurrent "
                "requests with start delays, yield count per fake deploy/undeploy); bounded-exhaustive "
                "core: all blocks with <=2 concurrent requests, every yield vector over 0..2 on the "
                "operations that are actually called (work-list closure), start delays 0..2; random "
                "beyond (3..4 requests, yields 0..4, 2 concurrent phases). Distinct = distinct case; "
                "non-trivial = at least one fake deploy ran. Distinct interleavings = distinct event-log "
                "hashes.",
        "exhaustive": True,
        "assumptions": ["fake connectors: an operation's duration is a number of event-loop yields",
                        "request and context configuration agree on lazy/eager for each deployment"],
    }


# ----------------------------------------------------------------------------------------------
# topologies and case construction
# ----------------------------------------------------------------------------------------------
TOPOS = {
    "single": {"a": None},
    "chain2": {"a": "b", "b": None},
    "chain3": {"a": "b", "b": "c", "c": None},
    "vee": {"a": "b", "c": "b", "b": None},
}


def inner_first(wraps):
    """names ordered so that a wrapped deployment precedes its wrappers"""
    out = []

    def visit(n):
        if n in out:
            return
        if wraps[n] is not None:
            visit(wraps[n])
        out.append(n)

    for n in sorted(wraps):
        visit(n)
    return out


def tops(wraps):
    wrapped = {v for v in wraps.values() if v}
    return [n for n in sorted(wraps) if n not in wrapped]


def chain_below(wraps, x):
    """names strictly below x in its wraps chain"""
    out = []
    y = wraps.get(x)
    while y is not None:
        out.append(y)
        y = wraps.get(y)
    return out


def above(wraps, y):
    """names whose wraps chain contains y (strictly above y)"""
    return [x for x in wraps if y in chain_below(wraps, x)]


def mk_case(topo, lazy, touch, fails, phases, yields, kind):
    return {"kind": kind, "topo": topo, "lazy": sorted(lazy), "touch": bool(touch),
            "fails": {k: sorted(v) for k, v in sorted(fails.items())},
            "phases": phases, "yields": {k: v for k, v in sorted(yields.items()) if v}}


def req(op, d=None, start=0):
    return {"op": op, "d": d, "start": start}


# ----------------------------------------------------------------------------------------------
# running one case on the real manager
# ----------------------------------------------------------------------------------------------
class Env:
    """One real StreamFlowContext per shard; a fresh DefaultDeploymentManager per case."""

    def __init__(self, sh):
        from vf.harness.ctx import make_context
        import vf.harness.c26_fake  # noqa: F401  registers the fake connectors

        self.sh = sh
        self.ctx = make_context(os.path.join(sh.scratch, "c26ctx"), db="default")
        import logging

        logging.getLogger("streamflow").setLevel(logging.CRITICAL)  # the import resets it to INFO
        from streamflow.deployment.future import FutureConnector
        from vf.harness.c26_fake import CUR_FUTURE

        if not getattr(FutureConnector.deploy, "_vf_c26", False):
            real = FutureConnector.deploy

            async def deploy(self, external):  # classification aid: who is deploying the fake
                tok = CUR_FUTURE.set(self)
                try:
                    return await real(self, external)
                finally:
                    CUR_FUTURE.reset(tok)

            deploy._vf_c26 = True
            FutureConnector.deploy = deploy
            real_undeploy = FutureConnector.undeploy

            async def undeploy(self, external):  # classification aid: did undeploy skip an in-flight deploy?
                r = await real_undeploy(self, external)
                if self.deploying and self._connector is None and not self.deploy_event.is_set():
                    from vf.harness.c26_fake import REC

                    REC.ev("future-undeploy-skipped-inflight", self.deployment_name)
                return r

            FutureConnector.undeploy = undeploy


async def run_case_async(env, case, beat=0.004, wall=60.0):
    from streamflow.core.config import Config
    from streamflow.core.deployment import DeploymentConfig, WrapsConfig
    from streamflow.deployment.future import FutureConnector
    from streamflow.deployment.manager import DefaultDeploymentManager
    from vf import perturb
    from vf.harness import c26_fake as F

    wraps = TOPOS[case["topo"]]
    lazy = set(case["lazy"])
    pol = Config(name="__DEFAULT__", type="data_locality", config={})
    deployments = {}
    for n in inner_first(wraps):
        d = {"type": "vf-c26-wrap" if wraps[n] else "vf-c26-fake", "config": {}, "lazy": n in lazy,
             "external": False, "scheduling_policy": pol}
        if wraps[n]:
            d["wraps"] = wraps[n]
        deployments[n] = d
    env.ctx.config["deployments"] = deployments
    dm = DefaultDeploymentManager(env.ctx)
    F.REC.reset(case["yields"], case["fails"], case["touch"])
    perturb.Sched.reset(0, 0, enabled=False)
    rec = F.REC

    # Observation of the manager itself, used ONLY by the mechanism classifier (never by the
    # verdict): when a name is (un)registered in config_map and when undeploy(name) is entered
    # (requests and internal cascades alike).
    class LoggedMap(dict):
        def __setitem__(self, k, v):
            rec.ev("mgr-register", k)
            dict.__setitem__(self, k, v)

        def __delitem__(self, k):
            rec.ev("mgr-unregister", k)
            dict.__delitem__(self, k)

    dm.config_map = LoggedMap()
    real_undeploy = dm.undeploy
    call_ids = itertools.count()

    async def logged_undeploy(name):
        k = next(call_ids)
        rec.ev("mgr-undeploy", name, k)
        try:
            return await real_undeploy(name)
        finally:
            rec.ev("mgr-undeploy-exit", name, k)

    dm.undeploy = logged_undeploy
    rec.manager = dm
    rid_counter = itertools.count()
    reqs = {}

    def cfg(n):
        d = deployments[n]
        return DeploymentConfig(name=n, type=d["type"], config={}, external=False, lazy=d["lazy"],
                                wraps=WrapsConfig(deployment=wraps[n]) if wraps[n] else None)

    async def one(r, phase, rid):
        info = {"rid": rid, "op": r["op"], "d": r["d"], "phase": phase, "t0": None, "t1": None, "out": "pending"}
        reqs[rid] = info
        for _ in range(r.get("start", 0)):
            await asyncio.sleep(0)
        info["t0"] = rec.ev("req-call", r["d"], rid, r["op"])
        try:
            if r["op"] == "deploy":
                await dm.deploy(cfg(r["d"]))
            elif r["op"] == "undeploy":
                await dm.undeploy(r["d"])
            elif r["op"] == "undeploy_all":
                await dm.undeploy_all()
            elif r["op"] == "use":
                conn = dm.get_connector(r["d"])
                if conn is None:
                    info["conn"] = None
                else:
                    info["conn"] = "future" if type(conn) is FutureConnector else "direct"
                    await conn.get_available_locations()
            info["out"] = "ok"
        except asyncio.CancelledError:
            info["out"] = "cancelled"
            info["t1"] = rec.ev("req-ret", r["d"], rid, "cancelled")
            raise
        except Exception as e:
            info["out"] = "exc:" + type(e).__name__
            info["err"] = str(e)[:200]
        info["t1"] = rec.ev("req-ret", r["d"], rid, info["out"])

    result = {"hung": None, "stacks": None, "wall_timeout": False, "final": None}
    phases = list(case["phases"])
    for pi, ph in enumerate(phases + [[req("undeploy_all")]]):
        final = pi == len(phases)

        rids = [next(rid_counter) for _ in ph]
        tasks = [asyncio.ensure_future(one(r, pi, rid)) for r, rid in zip(ph, rids)]

        async def phase_body(tasks=tasks):
            # shielded: on Deadlock the request tasks stay suspended so that their await chains
            # can be read before they are cancelled
            await asyncio.shield(asyncio.gather(*tasks, return_exceptions=True))

        try:
            await perturb.run_quiescent(phase_body(), wall_timeout=wall, beat=beat)
        except (perturb.Deadlock, perturb.WallTimeout) as e:
            if isinstance(e, perturb.Deadlock):
                result["hung"] = pi
                result["stacks"] = {str(rid): deep_stack(t) for rid, t in zip(rids, tasks) if not t.done()}
            else:
                result["wall_timeout"] = True
            for t in tasks:
                t.cancel()
            await asyncio.gather(*tasks, return_exceptions=True)
            break
        if final:
            result["final"] = True
    # Background work that outlives its request (e.g. the sibling tasks of an `undeploy_all` whose
    # gather raised) is allowed to finish before the end state is judged; whatever is still pending
    # after that is cancelled so that it cannot leak into the next case.
    me = asyncio.current_task()
    for _ in range(200):
        others = [t for t in asyncio.all_tasks() if t is not me and not t.done()]
        if not others:
            break
        await asyncio.sleep(0)
    others = [t for t in asyncio.all_tasks() if t is not me and not t.done()]
    result["leftover_tasks"] = len(others)
    events = [list(e) for e in rec.events]  # snapshot before the cancellations below log anything
    for t in others:
        t.cancel()
    if others:
        await asyncio.gather(*others, return_exceptions=True)
    return {"events": events, "reqs": [reqs[k] for k in sorted(reqs)], **result}


def deep_stack(task):
    """await chain of a suspended task: [file:line:function, ...] down to the innermost coroutine"""
    out = []
    c = task.get_coro()
    while c is not None and len(out) < 30:
        fr = getattr(c, "cr_frame", None) or getattr(c, "gi_frame", None)
        if fr is None:
            break
        out.append(f"{fr.f_code.co_filename.split('/streamflow/')[-1]}:{fr.f_lineno}:{fr.f_code.co_name}")
        c = getattr(c, "cr_await", None) or getattr(c, "gi_yieldfrom", None)
    return out


# ----------------------------------------------------------------------------------------------
# oracle
# ----------------------------------------------------------------------------------------------
def judge(case, obs):
    """-> (violations, records, counters).  Pure function of the case and the observed log."""
    wraps = TOPOS[case["topo"]]
    lazy = set(case["lazy"])
    inst = {}
    by_name = collections.defaultdict(list)
    V = []
    recs = collections.Counter()
    cnt = collections.Counter()
    reqs = {r["rid"]: r for r in obs["reqs"]}
    fails_seen = []  # (clock, name) of deploy-fail events

    def st(i):
        return inst[i]["state"]

    def ensure(i, name):
        if i not in inst:
            inst[i] = {"name": name, "state": "new", "dcall": None, "ddone": None, "ucall": None,
                       "udone": None, "ucalls": 0, "dcalls": 0, "wraps_iid": None, "dfail": None}
            by_name[name].append(i)

    def up_sometime_in(name, t0, t1):
        for i in by_name[name]:
            x = inst[i]
            if x["ddone"] is not None and x["ddone"] < t1 and (x["ucall"] is None or x["ucall"] > t0):
                return True
        return False

    pending_ua = []
    for clock, kind, name, iid, extra in obs["events"]:
        if kind in ("deploy-call", "deploy-done", "deploy-fail", "undeploy-call", "undeploy-done", "undeploy-fail"):
            ensure(iid, name)
            cnt["automaton_events"] += 1
        if kind == "deploy-call":
            x = inst[iid]
            if x["state"] not in ("new", "down", "failed"):
                V.append({"rule": "R1", "what": "deploy-called-on-" + x["state"], "name": name, "iid": iid, "t": clock})
            others = [j for j in by_name[name] if j != iid]
            live = [j for j in others if st(j) in ("deploying", "up")]
            if live:
                V.append({"rule": "R1", "what": "two-live-instances", "name": name, "iid": iid,
                          "other": live[0], "other_state": st(live[0]), "t": clock})
            if any(st(j) == "undeploying" for j in others):
                recs["overlap_with_older_instance_still_undeploying"] += 1
            y = wraps.get(name)
            if y is not None and not any(st(j) == "up" for j in by_name[y]):
                recs["wrapper_deploy_started_before_inner_up" + ("_lazy_inner" if y in lazy else "")] += 1
            x["state"] = "deploying"
            x["dcall"] = clock
            x["dcalls"] += 1
        elif kind == "deploy-done":
            inst[iid]["state"] = "up"
            inst[iid]["ddone"] = clock
        elif kind == "deploy-fail":
            inst[iid]["state"] = "failed"
            inst[iid]["dfail"] = clock
            fails_seen.append((clock, name, extra))
        elif kind == "undeploy-call":
            x = inst[iid]
            cnt["r3_undeploys_judged"] += 1
            if x["state"] in ("deploying", "undeploying", "down"):
                V.append({"rule": "R3", "what": "undeploy-called-on-" + x["state"], "name": name, "iid": iid, "t": clock})
            elif x["state"] in ("new", "failed"):
                recs["undeploy_called_on_" + x["state"] + "_instance"] += 1
            for w in (extra or {}).get("wrappers_on", []):
                if w in inst and st(w) in ("deploying", "up"):
                    V.append({"rule": "R3", "what": "inner-undeployed-under-live-wrapper", "name": name, "iid": iid,
                              "wrapper": inst[w]["name"], "wrapper_iid": w, "wrapper_state": st(w), "t": clock})
            x["state"] = "undeploying"
            x["ucall"] = clock
            x["ucalls"] += 1
        elif kind == "undeploy-done":
            inst[iid]["state"] = "down"
            inst[iid]["udone"] = clock
        elif kind == "undeploy-fail":
            inst[iid]["state"] = "down"
            recs["undeploy_failed"] += 1
        elif kind == "req-ret":
            r = reqs[iid]
            if r["out"] == "ok":
                judged = False
                if r["op"] == "deploy" and r["d"] not in lazy:
                    judged = True
                elif r["op"] == "use" and r.get("conn") == "future":
                    judged = True
                if judged:
                    cnt["r2_returns_judged"] += 1
                    if not up_sometime_in(r["d"], r["t0"], clock):
                        V.append({"rule": "R2", "what": r["op"] + "-returned-without-live-connector", "name": r["d"],
                                  "rid": iid, "t": clock,
                                  "failed_before": [n for (c, n, _) in fails_seen if c < clock]})
                if r["op"] == "undeploy_all":
                    def overlapping(ops):
                        return [q for q in obs["reqs"] if q["rid"] != iid and q["op"] in ops
                                and q["t0"] is not None and q["t0"] < clock and (q["t1"] is None or q["t1"] > r["t0"])]
                    final = r["phase"] == len(case["phases"])
                    if not overlapping(("deploy", "use", "undeploy", "undeploy_all")):
                        # no other request in flight: instances live (up) when the call began must now
                        # be down, undeployed exactly once
                        cnt["r4_undeploy_all_judged"] += 1
                        for i, x in inst.items():
                            if x["ddone"] is not None and x["ddone"] < r["t0"] and (x["ucall"] is None or x["ucall"] > r["t0"]):
                                if x["state"] != "down" or x["ucalls"] != 1:
                                    V.append({"rule": "R4", "what": "not-undeployed-exactly-once", "name": x["name"], "iid": i,
                                              "state": x["state"], "undeploy_calls": x["ucalls"], "t": clock, "final": final,
                                              "failed_before": [n for (c, n, _) in fails_seen if c < clock]})
            elif r["out"].startswith("exc:"):
                if not fails_seen:
                    recs["request_raised_without_injected_failure:" + r["op"] + ":" + r["out"][4:]] += 1
                else:
                    recs["request_raised_after_injected_failure:" + r["op"]] += 1
                if r["op"] == "undeploy_all" and r["phase"] == len(case["phases"]):
                    recs["closing_undeploy_all_raised:" + r["out"][4:]] += 1  # what it left behind is judged below
    cnt["quiescence_checked"] += 1
    if obs["hung"] is not None:
        for r in obs["reqs"]:
            if r["phase"] == obs["hung"] and r["out"] in ("pending", "cancelled"):
                V.append({"rule": "R5", "what": "request-hung-at-quiescence", "op": r["op"], "name": r["d"], "rid": r["rid"], "t": 10 ** 9,
                          "failed_before": [n for (c, n, _) in fails_seen],
                          "stack": (obs["stacks"] or {}).get(str(r["rid"]), [])})
    elif obs["final"]:
        # closing undeploy_all returned with nothing in flight: nothing may be left deployed
        for i, x in inst.items():
            if x["state"] in ("deploying", "up", "undeploying") and not any(
                    v["rule"] == "R4" and v.get("iid") == i for v in V):
                V.append({"rule": "R4", "what": "left-" + x["state"] + "-after-closing-undeploy-all", "name": x["name"], "iid": i,
                          "state": x["state"], "undeploy_calls": x["ucalls"], "final": True, "t": 10 ** 9 - 1,
                          "failed_before": [n for (c, n, _) in fails_seen]})
    nontrivial = any(x["dcalls"] for x in inst.values())
    if recs.get("undeploy_failed"):
        # the statement says nothing about failing undeploys: outcomes are recorded, not judged
        for v in V:
            recs["not_judged_after_undeploy_failure:" + v["rule"] + ":" + v["what"]] += 1
        V = []
    return V, recs, cnt, nontrivial, inst


def classify(case, obs, v, inst):
    """Explicit predicates recognising the listed mechanisms; anything else -> None (VIOLATION)."""
    wraps = TOPOS[case["topo"]]
    lazy = set(case["lazy"])
    mgr = [(c, k, n) for c, k, n, _, _ in obs["events"] if k.startswith("mgr-")]
    ucalls = {}  # manager-level undeploy(name) calls: id -> [name, enter, exit]
    for c, k, n, i, _ in obs["events"]:
        if k == "mgr-undeploy":
            ucalls[i] = [n, c, 10 ** 9]
        elif k == "mgr-undeploy-exit":
            ucalls[i][2] = c

    def reincarnated(name, before):
        """F-C26e precondition: the last registration of `name` in config_map before clock `before`
        happened while a manager-level undeploy(name) entered earlier was still running (undeploying
        the old connector, or still waiting for its event)."""
        regs = [c for c, k, n in mgr if k == "mgr-register" and n == name and c < before]
        if not regs:
            return False
        t = regs[-1]
        return any(n == name and c_in < t < c_out for n, c_in, c_out in ucalls.values())

    def orphaned_lazy(i):
        """F-C26d precondition: while instance i of a lazy deployment was still deploying, the
        FutureConnector's undeploy() returned without waiting for it (observed at the FutureConnector
        itself), and nobody undeployed the instance since."""
        x = inst.get(i)
        if x is None or x["name"] not in lazy or x["dcall"] is None or x["ucalls"]:
            return False
        end = x["ddone"] or x["dfail"] or 10 ** 9
        return any(k == "future-undeploy-skipped-inflight" and n == x["name"] and x["dcall"] < c < end
                   for c, k, n, _, _ in obs["events"])

    def kept_middle_undeployed(x, before):
        """F-C26a precondition: undeploy(x) was entered (request or cascade) before `before`, x stayed
        registered from then on, and some z above x is registered: the entry x in the dependants of
        its inner deployment was dropped although x was kept."""
        zs = above(wraps, x)
        return any(k0 == "mgr-undeploy" and n0 == x and c0 < before
                   and not any(k == "mgr-unregister" and n == x and c0 < c < before for c, k, n in mgr)
                   and any(k == "mgr-register" and n in zs and c < before for c, k, n in mgr)
                   for c0, k0, n0 in mgr)

    def stale_future(i):
        for c, k, n, j, x in obs["events"]:
            if k == "deploy-call" and j == i:
                return isinstance(x, dict) and bool(x.get("stale_future"))
        return False

    rule, what = v["rule"], v["what"]
    # ---- F-C26e  redeploy while the previous incarnation is still undeploying ------------------
    # the old `undeploy` then sets the NEW incarnation's event and cleans the NEW incarnation's
    # dependency entries: deploy returns early / the deploying instance is undeployed / its inner
    # deployment is freed under it / it is dropped from the maps and never undeployed.
    if rule == "R3" and what == "undeploy-called-on-deploying" and reincarnated(v["name"], inst[v["iid"]]["dcall"]):
        return M_E
    if rule == "R3" and what == "inner-undeployed-under-live-wrapper" \
            and (reincarnated(v["wrapper"], inst[v["wrapper_iid"]]["dcall"]) or reincarnated(v["wrapper"], v["t"])):
        # second form: the wrapper's name was registered again while the undeploy of its old incarnation
        # was still running (e.g. waiting for an in-flight lazy deploy); undeploying the NEW incarnation
        # then frees the inner deployment under the old, still live connector
        return M_E
    if rule == "R4" and v.get("iid") is not None and what.startswith(("left-", "not-undeployed")) \
            and v["name"] not in lazy and reincarnated(v["name"], inst[v["iid"]]["dcall"]):
        return M_E
    if rule == "R2" and what.startswith("deploy-returned") and reincarnated(v["name"], v["t"]):
        return M_E
    if rule == "R1" and what == "two-live-instances" and reincarnated(v["name"], inst[v["iid"]]["dcall"]) \
            and inst[v["other"]]["dcall"] < max(c for c, k, n in mgr if k == "mgr-register" and n == v["name"]
                                                and c < inst[v["iid"]]["dcall"]):
        return M_E  # the old incarnation is still waiting to be undeployed when the new one deploys
    # ---- F-C26d  undeploy while a lazy deploy is in flight ---------------------------------------
    if rule == "R4" and v.get("iid") is not None and v.get("state") == "up" and orphaned_lazy(v["iid"]):
        return M_D
    if rule == "R3" and what == "inner-undeployed-under-live-wrapper" and wraps.get(v["wrapper"]) == v["name"] \
            and orphaned_lazy(v["wrapper_iid"]):
        return M_D
    if rule == "R1" and what == "two-live-instances" and orphaned_lazy(v["other"]):
        return M_D
    # ---- F-C26a  undeploy(x) of a middle deployment that stays live frees its inner deployment ---
    if rule == "R3" and what == "inner-undeployed-under-live-wrapper":
        y, x = v["name"], v["wrapper"]
        if wraps.get(x) == y:
            if kept_middle_undeployed(x, v["t"]):
                return M_A
    if rule == "R4" and v.get("iid") is not None and v.get("state") == "up" and v.get("undeploy_calls") == 0 \
            and v["name"] in lazy and stale_future(v["iid"]):
        # ... and when y is lazy and not yet deployed it is only unregistered: wrappers keep the old
        # FutureConnector, deploy y through it later, and nobody ever undeploys that instance
        if any(wraps[x] == v["name"] and kept_middle_undeployed(x, inst[v["iid"]]["dcall"]) for x in wraps):
            return M_A
    # ---- F-C26g  two undeploys of one deployment race: the second dies with KeyError, which aborts
    # the cleanup loop of the undeploy that cascaded into it; a wrapper that was just undeployed
    # stays in the dependants of its inner deployment, which is then never undeployed.
    if rule == "R4" and v.get("iid") is not None and v.get("state") == "up" and v.get("undeploy_calls") == 0:
        xs = [x for x in wraps if wraps[x] == v["name"]]
        if any(r["op"] in ("undeploy", "undeploy_all") and r["out"] == "exc:KeyError" and r["t0"] is not None
               and any(k == "mgr-unregister" and n in xs and r["t0"] < c < r["t1"] for c, k, n in mgr)
               for r in obs["reqs"]):
            return M_G
    # ---- F-C26b  failed wrapper stays a dependant of its inner deployment -------------------------
    if rule == "R4" and what in ("not-undeployed-exactly-once", "left-up-after-closing-undeploy-all"):
        if v["state"] == "up" and v["undeploy_calls"] == 0 and any(n in above(wraps, v["name"]) for n in v["failed_before"]):
            return M_B
    if rule == "R5" and v["op"] == "deploy":
        waits_in_manager = bool(v["stack"]) and v["stack"][-1].endswith(":wait") and any(
            f.startswith("deployment/manager.py") and f.endswith(("_deploy", "_inner_deploy")) for f in v["stack"])
        chain = [v["name"]] + chain_below(wraps, v["name"])
        fail_times = [(c, n) for c, k, n, _, _ in obs["events"] if k == "deploy-fail" and n in chain]
        # ---- F-C26f  an undeploy that was waiting for a deploy which then failed clears the
        # event and dies with KeyError: the event stays cleared, later deploys wait forever.
        if waits_in_manager and any(
                r["op"] in ("undeploy", "undeploy_all") and r["out"] == "exc:KeyError" and r["t0"] is not None
                and any(r["t0"] < c < r["t1"] for c, _ in fail_times) for r in obs["reqs"]):
            return M_F
        # ---- F-C26c  exception inside `_inner_deploy` of n leaves events_map[n] unset -----------------
        # n (the hung deployment or one below it) was registered by a deploy request that died with an
        # exception before n's connector.deploy was ever called.
        if waits_in_manager:
            for n in chain:
                regs = [c for c, k, m in mgr if k == "mgr-register" and m == n]
                if not regs:
                    continue
                t_r = regs[-1]
                deploy_called = any(k == "deploy-call" and m == n and c > t_r for c, k, m, _, _ in obs["events"])
                registrant_died = any(r["op"] == "deploy" and r["out"].startswith("exc:") and r["t0"] is not None
                                      and r["t0"] < t_r < r["t1"] for r in obs["reqs"])
                if not deploy_called and registrant_died:
                    return M_C
    return None


def trace_hash(obs):
    return digest([(k, n, x if k.startswith("req") else None) for _, k, n, _, x in obs["events"]
                   if not k.startswith(("mgr-", "future-"))], 12)


# ----------------------------------------------------------------------------------------------
# shard driver
# ----------------------------------------------------------------------------------------------
class Stats:
    def __init__(self):
        self.records = collections.Counter()
        self.traces = set()
        self.by_kind = collections.Counter()
        self.viol_rules = collections.Counter()
        self.outcomes = collections.Counter()
        self.unclassified = 0

    def decided(self):
        """enough unlisted refutations: the verdict cannot change any more, stop exploring"""
        return self.unclassified >= 20


async def run_and_judge(env, sh, case, stats, sample=False):
    obs = await run_case_async(env, case)
    if obs["wall_timeout"]:
        sh.inconclusive_because("wall-clock watchdog fired in case " + digest(case))
        return obs
    V, recs, cnt, nontrivial, inst = judge(case, obs)
    for k, n in cnt.items():
        sh.count(k, n)
    stats.records.update(recs)
    stats.by_kind[case["kind"] + ":" + case["topo"]] += 1
    for r in obs["reqs"]:
        stats.outcomes[r["op"] + ":" + r["out"].split(":")[0]] += 1
    if len(stats.traces) < 200000:
        stats.traces.add(trace_hash(obs))
    sh.case(case, nontrivial=nontrivial)
    if sample:
        sh.sample({"case": case, "log": [[c, k, n, i] for c, k, n, i, _ in obs["events"]][:60],
                   "requests": [[r["op"], r["d"], r["out"]] for r in obs["reqs"]], "violations": len(V)})
    # Only the EARLIEST violation of a case is reported: after it the manager's bookkeeping is
    # corrupted and later violations of the same run are consequences, not independent findings.
    V.sort(key=lambda v: v["t"])
    for v in V[:1]:
        m = classify(case, obs, v, inst)
        if m is None:
            stats.unclassified += 1
        stats.viol_rules[(m or "unclassified") + ":" + v["rule"] + ":" + v["what"]] += 1
        sh.violation(m, f"{v['rule']} {v['what']} on deployment {v.get('name')} "
                        f"(topology {case['topo']}, lazy={case['lazy']}, fails={case['fails']}, "
                        f"phases={[[(r['op'], r['d'], r['start']) for r in ph] for ph in case['phases']]}, "
                        f"yields={case['yields']})",
                     {"case": case, "violation": v,
                      "log": [[c, k, n, i, x if not isinstance(x, dict) else x] for c, k, n, i, x in obs["events"]][:200]})
    return obs


def request_kinds(topo, lazy):
    wraps = TOPOS[topo]
    ks = []
    for n in sorted(wraps):
        ks.append(("deploy", n))
        ks.append(("undeploy", n))
        if n in lazy:
            ks.append(("use", n))
    ks.append(("undeploy_all", None))
    return ks


def setups(topo):
    wraps = TOPOS[topo]
    return [[], [[req("deploy", n)] for n in tops(wraps)], [[req("deploy", n)] for n in inner_first(wraps)]]


SPACES = {
    # bounded-exhaustive spaces: every block (topology, lazy set, touch, failing deploy, setup,
    # multiset of k concurrent requests) x every start-delay vector over 0..maxd (one request at 0)
    # x the work-list closure of yield vectors over 0..maxy
    "small-k2-lite": {"topos": ("single", "chain2"), "ks": (1, 2), "touch": (False, True), "fails": True, "maxy": 2, "maxd": 1, "setups": 3},
    "three-k2-lite": {"topos": ("vee", "chain3"), "ks": (1, 2), "touch": (False,), "fails": False, "maxy": 1, "maxd": 1, "setups": 2},
    "small-k2": {"topos": ("single", "chain2"), "ks": (1, 2), "touch": (False, True), "fails": True, "maxy": 2, "maxd": 2, "setups": 3},
    "three-k2": {"topos": ("vee", "chain3"), "ks": (1, 2), "touch": (False, True), "fails": True, "maxy": 1, "maxd": 1, "setups": 3},
    "three-k2-deep": {"topos": ("vee", "chain3"), "ks": (1, 2), "touch": (False,), "fails": False, "maxy": 2, "maxd": 1, "setups": 3},
    "small-k3": {"topos": ("single", "chain2"), "ks": (3,), "touch": (False, True), "fails": True, "maxy": 2, "maxd": 1, "setups": 3},
}
TIER_SPACES = {"quick": ("small-k2-lite", "three-k2-lite"),
               "thorough": ("small-k2", "three-k2", "three-k2-deep", "small-k3")}


def blocks(space):
    """Deterministic list of the blocks of one exhaustive space."""
    sp = SPACES[space]
    out = []
    for topo in sp["topos"]:
        names = sorted(TOPOS[topo])
        for nl in range(len(names) + 1):
            for lz in itertools.combinations(names, nl):
                lazy = set(lz)
                for touch in (sp["touch"] if len(names) > 1 else (False,)):
                    for fail in ([None] + names if sp["fails"] else [None]):
                        for su in setups(topo)[:sp["setups"]]:
                            kinds = request_kinds(topo, lazy)
                            for k in sp["ks"]:
                                for combo in itertools.combinations_with_replacement(kinds, k):
                                    out.append((topo, sorted(lazy), touch, fail, su, combo))
    return out


def start_vectors(k, maxd):
    return [v for v in itertools.product(range(maxd + 1), repeat=k) if min(v) == 0]


async def explore_block(env, sh, stats, block, maxy, maxd, cap=None):
    """Work-list closure over yield vectors: a key gets a non-zero yield count only once a run has
    shown that the operation is called, so the enumeration is exhaustive over behaviours."""
    from vf.harness import c26_fake as F

    topo, lazy, touch, fail, su, combo = block
    fails = {f"deploy:{fail}": [0]} if fail else {}
    n = 0
    for sv in start_vectors(len(combo), maxd):
        phases = list(su) + [[req(op, d, s) for (op, d), s in zip(combo, sv)]]
        seen = set()
        work = [frozenset()]
        while work:
            asg = work.pop()
            if asg in seen:
                continue
            seen.add(asg)
            case = mk_case(topo, lazy, touch, fails, phases, dict(asg), "ex")
            await run_and_judge(env, sh, case, stats)
            n += 1
            have = {k for k, _ in asg}
            for key in sorted(F.REC.calls):
                if key not in have:
                    for v in range(1, maxy + 1):
                        work.append(asg | {(key, v)})
            if (cap and n >= cap) or stats.decided():
                return n, False
    return n, True


def gen_random_case(rng):
    topo = rng.choice(["chain2", "vee", "chain3", "chain3", "chain3", "single"])
    wraps = TOPOS[topo]
    names = sorted(wraps)
    lazy = {n for n in names if rng.random() < 0.3}
    touch = rng.random() < 0.5
    fails = {}
    if rng.random() < 0.4:
        fails[f"deploy:{rng.choice(names)}"] = [rng.choice([0, 0, 1])]
    if rng.random() < 0.05:
        fails[f"undeploy:{rng.choice(names)}"] = [0]
    kinds = request_kinds(topo, lazy)
    phases = []
    r = rng.random()
    if r < 0.35:
        phases += rng.choice(setups(topo)[1:])
    elif r < 0.5:
        phases += [[req(*rng.choice(kinds))] for _ in range(rng.randint(1, 3))]
    for _ in range(rng.choice([1, 1, 1, 2])):
        k = rng.choice([1, 2, 3, 3, 4, 4])
        phases.append([req(*rng.choice(kinds), start=rng.randint(0, 4)) for _ in range(k)])
    yields = {f"{op}:{n}": rng.choice([0, 0, 1, 2, 3, 4]) for op in ("deploy", "undeploy") for n in names}
    return mk_case(topo, lazy, touch, fails, phases, yields, "rnd")


async def shard_main(sh: Shard):
    env = Env(sh)
    stats = Stats()
    try:
        # 1. bounded-exhaustive spaces: count-based, always completed (independent of the budget)
        done = {}
        idx = 0
        for space in TIER_SPACES[sh.tier]:
            sp = SPACES[space]
            nb = nc = 0
            for b in blocks(space):
                idx += 1
                if not sh.mine(idx) or stats.decided():
                    continue
                n, _ = await explore_block(env, sh, stats, b, sp["maxy"], sp["maxd"])
                nb += 1
                nc += n
            done[space] = {"blocks": nb, "cases": nc}
        t_core = sh.plan["budget_s"] - sh.time_left()
        # 2. random beyond the bounds: at least a fixed number of cases, then until the budget ends
        rng = sh.rng("rnd", sh.shard)
        nrnd = 0
        while (nrnd < sh.pick(600, 20000) or not sh.out_of_budget()) and not stats.decided():
            case = gen_random_case(rng)
            await run_and_judge(env, sh, case, stats, sample=(nrnd == 7 and sh.shard < 3))
            nrnd += 1
        sh.note("coverage", {
            "exhaustive_spaces": done, "exhaustive_part_s": round(t_core, 1),
            "random_cases": nrnd, "distinct_interleavings": len(stats.traces),
            "stopped_early_after_20_unlisted_refutations": stats.decided(),
            "cases_by_kind_topology": dict(stats.by_kind), "request_outcomes": dict(stats.outcomes),
            "recorded_not_judged": dict(stats.records), "first_violation_by_mechanism_rule": dict(stats.viol_rules)})
    finally:
        try:
            await env.ctx.database.close()
        except Exception:
            pass


def run_shard(sh: Shard) -> None:
    asyncio.run(shard_main(sh))


def replay(sh: Shard, w: dict) -> None:
    async def go():
        env = Env(sh)
        stats = Stats()
        await run_and_judge(env, sh, w["case"], stats, sample=True)
        sh.note("coverage", {"recorded_not_judged": dict(stats.records), "violations_by_rule": dict(stats.viol_rules)})
        await env.ctx.database.close()

    asyncio.run(go())
