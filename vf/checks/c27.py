"""C27  Batch jobs complete only after leaving the queue.

Workload: the REAL SlurmConnector (deployed through the real deployment manager, wrapping a real
LocalConnector) talks to fake `sbatch/squeue/scontrol/scancel` executables
(vf/harness/c27_slurm/vfslurm.py, copied into the shard scratch and put first on PATH of the inner
location).  A scenario issues 1..6 concurrent `run(job_name=...)` calls with random start delays,
random queue times (logical ticks: the fake queue advances on every `squeue` call), distinct outputs
and exit codes, polling interval 0.01 / 0.05 s, optional jobs submitted to the queue by somebody
else, and optionally undeploys the connector at a random point.

Oracle: join of the fake queue's log (submit / squeue / start / finish / scontrol / cancel with a
logical clock, written under flock by the fake itself) with the harness's call / return records:

  J1  when run() returns normally the job's `finish` record is already in the queue log (snapshot
      of the log taken at the return), and the queue log never shows the connector asking for the
      job's output (`scontrol`) before its `finish`/`cancel` record        (only after leaving the queue)
  J2  run() returns that job's own output text (or leaves it in the requested stdout file) and
      that job's own exit code                                              (own output and exit code)
  U1  undeploy sends `scancel` only for jobs this connector submitted whose run() had not returned
      when undeploy began (never a foreign job, never a job already reported finished)
  U2  when undeploy returns, no job whose submission had been acknowledged to the connector before
      undeploy began is still PENDING/RUNNING in the queue                       (every queued job)

Recorded, not judged: run() calls whose `sbatch` was still in flight when undeploy began (the
connector cannot know their ids), what run() does after its connector was undeployed (KeyError),
scancel sent to a job that had completed in the queue but had not been polled yet.
"""
from __future__ import annotations

import asyncio
import collections
import fcntl
import json
import os
import shutil
import sys
import time

from vf.common import Shard, digest, short_tb

PROPERTY = "C27"
META = {
    "text": "Through the real SlurmConnector, run(job_name=...) reports a job finished only after the queue "
            "has recorded its completion, with that job's own output and exit code, however submissions and "
            "polls interleave; undeploy cancels exactly the connector's still-queued jobs.",
    "note": "The queue manager is a fake (sbatch/squeue/scontrol/scancel scripts over a locked state file, "
            "logical time advanced by squeue calls); only the Slurm flavour of QueueManagerConnector is driven.",
    "technique": "fake queue log joined with client-side call/return records",
}

HERE = os.path.dirname(os.path.abspath(__file__))
FAKE = os.path.join(os.path.dirname(HERE), "harness", "c27_slurm", "vfslurm.py")
ACTIVE = ("PENDING", "RUNNING")


def plan(tier):
    quick = tier == "quick"
    return {
        "level": "exploration",
        "shards": 16,
        "budget_s": 55 if quick else 780,
        "timeout_s": 1800 if quick else 4000,
        "min_nontrivial": 40 if quick else 300,
        "required_counters": ["j1_returns_joined", "j2_results_compared", "u_undeploys_judged", "queue_log_records"],
        "rule": "a case = (1..6 jobs with start delay, pending/running ticks, exit code, stdout-to-file flag, service; "
                "0/2/3 services defined on the connector; "
                "polling interval; first job id; foreign jobs; undeploy point or none). Non-trivial = at least one "
                "run() returned or an undeploy was judged. Distinct interleavings = distinct hashes of the fake "
                "queue's log (order of submit/start/finish/cancel/squeue listings).",
        "exhaustive": False,
        "assumptions": ["fake sbatch/squeue/scontrol/scancel emulate Slurm's command-line contract for the options "
                        "StreamFlow uses", "the harness reads the queue log under the same flock as the fake commands"],
    }


# ----------------------------------------------------------------------------------------------
def gen_case(rng):
    n = rng.randint(1, 6)
    jobs = []
    for i in range(n):
        jobs.append({"i": i, "delay": round(rng.choice([0, 0, 0.005, 0.02, 0.05, 0.1]) * rng.random(), 4),
                     "tp": rng.randint(0, 3), "tr": rng.randint(0, 3), "rc": rng.choice([0, 0, 1, 2, 3, 7, 42, 127]),
                     "to_file": rng.random() < 0.15})
    foreign = [{"delay": round(rng.random() * 0.05, 4), "tp": rng.randint(0, 6), "tr": rng.randint(0, 6)}
               for _ in range(rng.choice([0, 0, 1, 2]))]
    und = None
    if rng.random() < 0.45:
        # undeploy point: after the k-th acknowledged submission / k-th run() return (robust against
        # machine load) or after a plain delay, plus a small extra delay
        kind = rng.choice(["ack", "ack", "run-return", "delay"])
        und = {"after": kind, "count": rng.randint(0, n) if kind != "delay" else 0,
               "plus": round(rng.choice([0.0, 0.0, 0.01, 0.05, 0.2]) * rng.random(), 4)}
    poll = rng.choice([0.01, 0.05, 0.01, 0.05, 0.25])
    # half of the scenarios: the connector defines 2..3 `services` and the jobs are spread over them
    # (locations from get_available_locations(service=...) differ by `service`, the polling cache is
    # one entry per connector); these poll slowly more often so that cached listings get reused
    nsvc = rng.choice([0, 0, 2, 3]) if n > 1 else rng.choice([0, 0, 0, 2])
    if nsvc:
        poll = rng.choice([0.05, 0.25, 0.25])
        for j in jobs:
            j["svc"] = rng.choice([None] + list(range(nsvc))) if rng.random() < 0.15 else rng.randrange(nsvc)
    return {"jobs": jobs, "poll": poll, "first_id": rng.choice([0, 8, 98, 998, 41]), "services": nsvc,
            "foreign": foreign, "undeploy_at": und, "nonce": "%06x" % rng.getrandbits(24)}


class Env:
    def __init__(self, sh):
        from vf.harness.ctx import make_context
        import logging

        self.sh = sh
        self.bin = os.path.join(sh.scratch, "c27bin")
        os.makedirs(self.bin, exist_ok=True)
        with open(FAKE) as f:
            src = f.read()
        for name in ("sbatch", "squeue", "scontrol", "scancel"):
            p = os.path.join(self.bin, name)
            with open(p, "w") as f:
                f.write(f"#!{sys.executable} -SE\n" + src)
            os.chmod(p, 0o755)
        self.ctx = make_context(os.path.join(sh.scratch, "c27ctx"), db="default")
        logging.getLogger("streamflow").setLevel(logging.CRITICAL)
        self.k = 0


def read_db(state):
    os.makedirs(state, exist_ok=True)
    with open(os.path.join(state, "lock"), "a+") as lock:
        fcntl.flock(lock, fcntl.LOCK_EX)
        p = os.path.join(state, "db.json")
        if not os.path.exists(p):
            return {"jobs": {}, "log": [], "clock": 0}
        with open(p) as f:
            return json.load(f)


async def run_scenario(env, case, wall=600.0):
    """-> observation dict (pure data; judged by `judge`)"""
    from streamflow.core.deployment import DeploymentConfig, WrapsConfig

    env.k += 1
    base = os.path.join(env.sh.scratch, f"c27s{env.k}")
    state, wd = os.path.join(base, "state"), os.path.join(base, "w")
    shutil.rmtree(base, ignore_errors=True)
    os.makedirs(state)
    os.makedirs(wd)
    dm = env.ctx.deployment_manager
    ln, sn = f"loc{env.k}", f"sl{env.k}"
    await dm.deploy(DeploymentConfig(name=ln, type="local", config={}, external=True, lazy=False, workdir=wd))
    cfg = {"pollingInterval": case["poll"], "maxConcurrentJobs": 8}
    nsvc = case.get("services", 0)
    if nsvc:
        cfg["services"] = {f"s{k}": {"partition": f"part{k}", "jobName": f"vf-s{k}"} for k in range(nsvc)}
    await dm.deploy(DeploymentConfig(name=sn, type="slurm", config=cfg,
                                     external=False, lazy=False, wraps=WrapsConfig(deployment=ln)))
    conn = dm.get_connector(sn)
    fake_env = {"PATH": env.bin + os.pathsep + os.environ.get("PATH", ""), "VF_SLURM_STATE": state,
                "VF_SLURM_FIRST_ID": str(case["first_id"])}
    locs = {}
    for svc in [None] + [f"s{k}" for k in range(nsvc)]:
        l = next(iter((await conn.get_available_locations(service=svc)).values())).location
        l.wraps.environment = dict(fake_env)  # the inner (LocalConnector) location: PATH with the fakes first
        locs[svc] = l

    def loc_of(j):
        return locs[f"s{j['svc']}" if j.get("svc") is not None else None]

    seq = [0]
    H = []  # harness-side records, totally ordered: [seq, kind, job index, data]

    counts = collections.Counter()
    tick = asyncio.Event()

    def rec(kind, i=None, data=None):
        seq[0] += 1
        H.append([seq[0], kind, i, data])
        counts[kind] += 1
        tick.set()
        return seq[0]

    # acknowledgement of a submission = _run_batch_command returning the job id to run()
    real_submit = conn._run_batch_command
    spawn_s = [1.0]  # measured duration of one command round trip on this machine, now

    async def submit(*a, **k):
        jn = k.get("job_name")
        rec("sbatch-call", int(jn.rsplit("/", 1)[1]))
        t_sub = time.time()
        jid = await real_submit(*a, **k)
        spawn_s.append(time.time() - t_sub)
        rec("ack", int(jn.rsplit("/", 1)[1]), jid)
        return jid

    conn._run_batch_command = submit
    inner_run = conn.connector.run  # every command of the connector goes through here: time it

    async def timed_run(*a, **k):
        t_cmd = time.time()
        try:
            return await inner_run(*a, **k)
        finally:
            spawn_s.append(time.time() - t_cmd)

    conn.connector.run = timed_run

    def expected_out(i):
        return f"out-{case['nonce']}-{i}"

    async def job(j):
        i = j["i"]
        await asyncio.sleep(j["delay"])
        rec("run-call", i)
        kw = {}
        if j["to_file"]:
            kw["stdout"] = f"o_{i}.txt"
        try:
            r = await conn.run(loc_of(j), ["echo", expected_out(i) + ";", "exit", str(j["rc"])],
                               environment={"VF_JOB": str(i), "VF_TICKS_P": str(j["tp"]), "VF_TICKS_R": str(j["tr"])},
                               workdir=wd, capture_output=True, job_name=f"/vf/{i}", **kw)
        except asyncio.CancelledError:
            rec("run-cancelled", i)
            raise
        except Exception as e:
            rec("run-raised", i, type(e).__name__ + ": " + str(e)[:200])
            return
        db = read_db(state)  # snapshot of the queue log at the return, taken before anything else runs
        data = {"result": list(r) if r is not None else None, "clock": db["clock"],
                "finished": [l[2] for l in db["log"] if l[1] == "finish"],
                "cancelled": [l[2] for l in db["log"] if l[1] == "cancel"]}
        if j["to_file"]:
            try:
                with open(os.path.join(wd, f"o_{i}.txt")) as f:
                    data["file"] = f.read()
            except OSError as e:
                data["file"] = None
        rec("run-return", i, data)

    async def foreign(fj, k):
        await asyncio.sleep(fj["delay"])
        script = f'#!/bin/sh\nexport VF_TICKS_P="{fj["tp"]}" && export VF_TICKS_R="{fj["tr"]}" && echo foreign-{k}\n'
        p = await asyncio.create_subprocess_exec(
            os.path.join(env.bin, "sbatch"), "--parsable", "--chdir", wd, env=dict(os.environ, **fake_env),
            stdin=asyncio.subprocess.PIPE, stdout=asyncio.subprocess.PIPE, stderr=asyncio.subprocess.DEVNULL)
        out, _ = await p.communicate(script.encode())
        rec("foreign-submitted", k, out.decode().strip())

    async def undeployer(at):
        while at["after"] != "delay" and counts[at["after"]] < at["count"]:
            if all(t.done() for t in job_tasks):
                rec("undeploy-trigger-never-reached")
                return
            tick.clear()
            try:
                await asyncio.wait_for(tick.wait(), 0.5)
            except asyncio.TimeoutError:
                pass
        await asyncio.sleep(at["plus"])
        db0 = read_db(state)
        rec("undeploy-call", None, {"clock": db0["clock"]})
        try:
            await dm.undeploy(sn)
        except Exception as e:
            db1 = read_db(state)
            rec("undeploy-raised", None, {"err": type(e).__name__ + ": " + str(e)[:200], "clock": db1["clock"],
                                          "states": {k: v["state"] for k, v in db1["jobs"].items()}})
            return
        db1 = read_db(state)
        rec("undeploy-return", None, {"clock": db1["clock"], "states": {k: v["state"] for k, v in db1["jobs"].items()}})

    job_tasks = [asyncio.ensure_future(job(j)) for j in case["jobs"]]
    tasks = list(job_tasks)
    tasks += [asyncio.ensure_future(foreign(fj, k)) for k, fj in enumerate(case["foreign"])]
    if case["undeploy_at"] is not None:
        tasks.append(asyncio.ensure_future(undeployer(case["undeploy_at"])))
    # Watchdogs (both => inconclusive, never a violation): `wall` seconds in total; or a run() that is
    # still polling `grace` seconds after every submitted job of this connector left the queue.
    t_start = time.time()
    idle_since = None
    stalled = False
    grace = 60.0
    pending = set(tasks)
    while pending and time.time() - t_start < wall:
        done, pending = await asyncio.wait(pending, timeout=2.0)
        if not pending:
            break
        dbm = read_db(state)
        own_states = [v["state"] for v in dbm["jobs"].values() if v["idx"] >= 0]
        all_submitted = counts["ack"] + counts["run-raised"] + counts["run-return"] >= len(case["jobs"])
        if all_submitted and own_states and not any(x in ACTIVE for x in own_states):
            idle_since = idle_since or time.time()
            if time.time() - idle_since > max(grace, 20 * max(spawn_s) + 4 * case["poll"]):
                stalled = True
                break
        else:
            idle_since = None
    timed_out = bool(pending)
    for t in pending:
        t.cancel()
    await asyncio.gather(*tasks, return_exceptions=True)
    crashed = [short_tb(t.exception()) for t in tasks if not t.cancelled() and t.exception() is not None]
    final = read_db(state)
    try:
        await asyncio.wait_for(dm.undeploy(sn), 30)
        await asyncio.wait_for(dm.undeploy(ln), 30)
    except Exception:
        pass
    shutil.rmtree(base, ignore_errors=True)
    return {"H": H, "log": final["log"], "jobs": {k: {"state": v["state"], "idx": v["idx"], "rc": v["rc"]} for k, v in final["jobs"].items()},
            "timed_out": timed_out, "stalled": stalled, "crashed": crashed}


# ----------------------------------------------------------------------------------------------
def judge(case, obs):
    V = []
    recs = collections.Counter()
    cnt = collections.Counter()
    log = obs["log"]
    cnt["queue_log_records"] = len(log)
    pos = {}  # (kind, jid) -> first clock
    for l in log:
        pos.setdefault((l[1], l[2]), l[0])
    idx2jid = {}
    for l in log:
        if l[1] == "submit" and l[3] >= 0:
            if l[3] in idx2jid:
                V.append({"rule": "J0", "what": "job-submitted-twice", "i": l[3], "jids": [idx2jid[l[3]], l[2]]})
            idx2jid[l[3]] = l[2]
    own = set(idx2jid.values())
    acks = {r[2]: (r[0], r[3]) for r in obs["H"] if r[1] == "ack"}
    for i, (_, jid) in acks.items():
        if idx2jid.get(i) != jid:
            V.append({"rule": "J0", "what": "acknowledged-id-is-not-the-submitted-job", "i": i, "ack": jid, "queue": idx2jid.get(i)})
    und_call = next((r for r in obs["H"] if r[1] == "undeploy-call"), None)
    und_ret = next((r for r in obs["H"] if r[1] in ("undeploy-return", "undeploy-raised")), None)
    returns = {r[2]: r for r in obs["H"] if r[1] == "run-return"}
    spec = {j["i"]: j for j in case["jobs"]}

    for i, r in returns.items():
        jid = idx2jid.get(i)
        d = r[3]
        if jid is None:
            V.append({"rule": "J1", "what": "run-returned-for-a-job-never-submitted", "i": i})
            continue
        after_undeploy = und_call is not None and und_call[0] < r[0]
        cnt["j1_returns_joined"] += 1
        if jid not in d["finished"]:
            if jid in d["cancelled"]:
                recs["run_returned_after_its_job_was_cancelled"] += 1
                continue
            V.append({"rule": "J1", "what": "run-returned-before-the-job-finished", "i": i, "jid": jid,
                      "return_clock": d["clock"], "finish_clock": pos.get(("finish", jid)),
                      "state_now": obs["jobs"].get(jid, {}).get("state")})
            continue
        sc = pos.get(("scontrol", jid))
        if sc is not None and sc < pos[("finish", jid)]:
            V.append({"rule": "J1", "what": "output-requested-before-the-job-finished", "i": i, "jid": jid,
                      "scontrol_clock": sc, "finish_clock": pos[("finish", jid)]})
        cnt["j2_results_compared"] += 1
        exp_out = f"out-{case['nonce']}-{i}"
        got = d["result"]
        if spec[i]["to_file"]:
            ok_out = got is not None and got[0] is None and (d.get("file") or "").strip() == exp_out
        else:
            ok_out = got is not None and got[0] == exp_out
        if not ok_out or got is None or got[1] != spec[i]["rc"]:
            V.append({"rule": "J2", "what": "not-the-jobs-own-output-or-exit-code", "i": i, "jid": jid, "got": got,
                      "file": d.get("file"), "expected": [exp_out, spec[i]["rc"]], "after_undeploy": after_undeploy})
    for r in obs["H"]:
        if r[1] == "run-raised":
            key = "run_raised_after_undeploy" if und_call is not None and und_call[0] < r[0] else "run_raised_without_undeploy"
            recs[key + ":" + r[3].split(":")[0]] += 1

    if und_call is not None and und_ret is not None:
        cnt["u_undeploys_judged"] += 1
        cancels = [l for l in log if l[1] == "cancel"]
        returned_before = {i for i, r in returns.items() if r[0] < und_call[0]}
        for l in cancels:
            jid = l[2]
            if jid not in own:
                V.append({"rule": "U1", "what": "cancelled-a-foreign-job", "jid": jid, "state_before": l[3]})
                continue
            i = next(k for k, v in idx2jid.items() if v == jid)
            if i in returned_before:
                V.append({"rule": "U1", "what": "cancelled-a-job-already-reported-finished", "i": i, "jid": jid, "state_before": l[3]})
            elif l[3] not in ACTIVE:
                recs["scancel_sent_to_job_completed_but_not_yet_polled"] += 1
            cnt["u1_cancels_checked"] += 1
        for i, (aseq, jid) in acks.items():
            if aseq < und_call[0]:
                cnt["u2_acked_jobs_checked"] += 1
                if und_ret[3]["states"].get(jid) in ACTIVE:
                    V.append({"rule": "U2", "what": "queued-job-not-cancelled-by-undeploy", "i": i, "jid": jid,
                              "state_at_undeploy_return": und_ret[3]["states"].get(jid),
                              "cancelled": [l[2] for l in cancels], "undeploy_error": und_ret[3].get("err"),
                              "scancel_calls": len(cancels)})
        inflight = [r[2] for r in obs["H"] if r[1] == "sbatch-call" and r[0] < und_call[0]
                    and not (r[2] in acks and acks[r[2]][0] < und_call[0])]
        if inflight:
            recs["submission_in_flight_at_undeploy"] += len(inflight)
        if und_ret[1] == "undeploy-raised":
            recs["undeploy_raised:" + und_ret[3]["err"].split(":")[0]] += 1
    nontrivial = bool(returns) or cnt["u_undeploys_judged"] > 0
    return V, recs, cnt, nontrivial


M_STRIP = "C27/undeploy-strips-inner-location-twice"


def classify(v):
    """Explicit predicate for the one listed mechanism: QueueManagerConnector.undeploy hands the INNER
    location to _remove_jobs, whose `super().run(location=...)` strips the wrapper once more, so undeploy
    raises `Location ... does not wrap any inner location` before any scancel is issued."""
    if v["rule"] == "U2" and v.get("scancel_calls") == 0 and v.get("undeploy_error") \
            and v["undeploy_error"].startswith("WorkflowExecutionException")  \
            and "does not wrap any inner location" in v["undeploy_error"]:
        return M_STRIP
    return None


def trace_hash(obs):
    idx = {k: v["idx"] for k, v in obs["jobs"].items()}
    return digest([(l[1], idx.get(l[2], l[2]) if l[1] != "squeue" else [idx.get(x, x) for x in l[3]]) for l in obs["log"]], 12)


class Stats:
    def __init__(self):
        self.records = collections.Counter()
        self.traces = set()
        self.hist = collections.Counter()


async def run_case(env, sh, case, stats, sample=False):
    try:
        obs = await run_scenario(env, case)
    except Exception as e:
        sh.inconclusive_because("harness failure in scenario: " + short_tb(e))
        return None
    if obs["crashed"]:
        sh.inconclusive_because("harness task crashed: " + obs["crashed"][0][-600:])
        return obs
    if obs["timed_out"]:
        sh.inconclusive_because(("run() still polling long after all its jobs left the queue: " if obs["stalled"]
                                 else "scenario hit the wall-clock watchdog: ") + digest(case))
        # what did return is still judged below (a safety violation stays one)
    V, recs, cnt, nontrivial = judge(case, obs)
    for k, n in cnt.items():
        sh.count(k, n)
    stats.records.update(recs)
    stats.traces.add(trace_hash(obs))
    stats.hist[f"jobs={len(case['jobs'])}"] += 1
    stats.hist[f"poll={case['poll']}"] += 1
    stats.hist["undeploy" if case["undeploy_at"] is not None else "no-undeploy"] += 1
    stats.hist[f"services={case.get('services', 0)}"] += 1
    if len({j.get("svc") for j in case["jobs"]}) > 1:
        stats.hist["jobs-on-different-services"] += 1
    sh.case(case, nontrivial=nontrivial)
    if sample:
        sh.sample({"case": case, "queue_log": obs["log"][:40],
                   "harness_records": [[r[0], r[1], r[2]] for r in obs["H"]][:40], "violations": len(V)})
    for v in V[:3]:
        sh.violation(classify(v), f"{v['rule']} {v['what']}: {json.dumps({k: x for k, x in v.items() if k not in ('rule', 'what')})[:600]}",
                     {"case": case, "violation": v, "queue_log": obs["log"][:200], "harness_records": obs["H"][:200]})
    return obs


async def shard_main(sh: Shard):
    env = Env(sh)
    stats = Stats()
    rng = sh.rng("c27", sh.shard)
    n = 0
    try:
        while True:
            # at least ~48 (quick) / ~320 (thorough) scenarios over all shards, whatever the machine load
            if n >= max(sh.pick(3, 20), -(-sh.pick(48, 320) // sh.nshards)) and sh.out_of_budget():
                break
            if n >= sh.pick(400, 6000) or sum(1 for v in sh.violations if not v["mechanism"]) >= 6:
                break
            case = gen_case(rng)
            await run_case(env, sh, case, stats, sample=(n == 1 and sh.shard < 3))
            n += 1
    finally:
        sh.note("coverage", {"scenarios": n, "distinct_interleavings": len(stats.traces), "histogram": dict(stats.hist),
                             "recorded_not_judged": dict(stats.records)})
        try:
            await env.ctx.database.close()
        except Exception:
            pass


def run_shard(sh: Shard) -> None:
    asyncio.run(shard_main(sh))


def replay(sh: Shard, w: dict) -> None:
    async def go():
        env = Env(sh)
        stats = Stats()
        for _ in range(5):  # wall-clock races: a recorded case is re-run a few times
            await run_case(env, sh, w["case"], stats, sample=True)
        sh.note("coverage", {"recorded_not_judged": dict(stats.records)})
        await env.ctx.database.close()

    asyncio.run(go())
