"""C14  Hardware arithmetic is consistent.

Oracle: dict-of-floats reference model (vf/models/c14_hw.py).  The laws are installed as icontract
post-conditions on the real Hardware/Storage operators, so every operator call is judged at its own
boundary -- the calls of the direct workload below AND the calls the real DefaultScheduler makes
while it runs a slice of the C10 scheduler histories (part 2).  On top of the per-operator
contracts the direct workload judges the compound laws of the statement:
  * (a + r) - r == a per mount point, cores and memory (1e-9 relative);
  * normalized(): idempotent, keeps per-mount totals, is_normalized() afterwards;
  * a.satisfies(r)  <=>  cores, memory and every mount point of r are <= in a
    (WorkflowExecutionException is the designed outcome when r names a mount point a lacks);
  * a - r raises when some mount point would become negative (beyond 1e-9 relative rounding residue) and
    only then; a | r keeps keys / max size;
  * no operator mutates its operands.
"""
from __future__ import annotations

from vf.common import Shard, short_tb

PROPERTY = "C14"
META = {
    "text": "Hardware/Storage arithmetic (add, subtract, merge, normalise, satisfies) agrees with a "
            "dict-of-floats reference model on generated values with aliasing storage keys, and on every "
            "operator call the real scheduler makes while running generated job histories.",
    "note": "Only non-negative operands (negative sizes raise by design). A subtraction is judged on the mount "
            "points of the minuend; mount points that only the subtrahend names are recorded, not judged. "
            "`|` is judged on storage keys/sizes/paths only (cores/memory of a merge are not part of the statement).",
    "technique": "icontract post-conditions on the real operators + reference-model differential testing",
}

MOUNTS = ["/", "/data", "/scratch", "/data/sub"]
SPECIAL = [0.0, 0.0, 5e-324, 1e-9, 0.1, 0.7, 1 / 3, 0.5, 1.0, 3.25, 100.0, 1024.0, float(2 ** 20), 1e12, float(2 ** 53)]


def plan(tier):
    q = tier == "quick"
    return {
        "level": "exploration",
        "shards": 16,
        "budget_s": 45 if q else 600,
        "timeout_s": 600 if q else 3600,
        "min_nontrivial": 3000 if q else 100000,
        "required_counters": ["c14_contract_add", "c14_contract_sub", "c14_contract_or", "c14_contract_normalized",
                              "c14_contract_satisfies", "c14_contract_storage_add", "c14_contract_storage_sub",
                              "law_addsub", "law_satisfies", "sched_histories", "sched_contract_evals"],
        "rule": "pairs (a, r) of Hardware values: 0..4 storages over 1..3 mount points drawn from 4 (one nested), "
                "aliasing keys in half of the cases, cores/memory/sizes from {0, denormal, 1e-9, fractional, large} "
                "or random; r is derived from a (subset / scaled / equal) in 40% of the cases so that satisfies() is "
                "true and borderline-equal; each pair runs add/sub round trip, normalized, satisfies, sub, or. "
                "Non-trivial = the pair has at least one non-zero storage; distinct = distinct (a, r). Part 2: "
                "contracts evaluated on the operator calls of the real scheduler over generated job histories.",
        "exhaustive": False,
        "assumptions": ["operands are non-negative", "storage keys that alias share the mount point they name"],
    }


# ------------------------------------------------------------------------------------------------
def val(rng):
    r = rng.random()
    if r < 0.55:
        return rng.choice(SPECIAL)
    if r < 0.8:
        return round(rng.random() * 10 ** rng.randint(0, 6), rng.randint(0, 6))
    return rng.random() * 10 ** rng.randint(-6, 9)


def gen_hw(rng, mps, aliasing):
    st = []
    for i in range(rng.randint(0, 4)):
        mp = rng.choice(mps)
        key = f"k{i}" if aliasing else mp
        if any(s[0] == key for s in st):
            continue
        paths = [f"{mp.rstrip('/')}/p{rng.randint(0, 3)}" for _ in range(rng.randint(0, 2))]
        st.append([key, mp, val(rng), sorted(set(paths))])
    return {"cores": rng.choice([0.0, 0.5, 1.0, 2.0, 8.0, val(rng)]), "memory": val(rng), "st": st}


def derive(rng, a):
    """A requirement related to `a`: equal, a sub-multiset, or scaled -- makes satisfies() true/borderline."""
    mode = rng.choice(["equal", "subset", "half", "rekey", "bump"])
    st = [list(s) for s in a["st"]]
    if mode == "subset" and st:
        st = rng.sample(st, rng.randint(0, len(st)))
    if mode == "half":
        st = [[k, mp, sz / 2, p] for k, mp, sz, p in st]
    if mode == "rekey":
        st = [[f"r{i}", mp, sz, p] for i, (k, mp, sz, p) in enumerate(st)]
    if mode == "bump" and st:
        i = rng.randrange(len(st))
        st[i][2] = st[i][2] * (1 + rng.choice([1e-12, 1e-3, 1.0])) + rng.choice([0.0, 5e-324, 1e-9])
    f = 0.5 if mode == "half" else 1.0
    return {"cores": a["cores"] * f, "memory": a["memory"] * f, "st": st}


def gen_case(rng):
    mps = rng.sample(MOUNTS, rng.randint(1, 3))
    a = gen_hw(rng, mps, rng.random() < 0.5)
    r = derive(rng, a) if rng.random() < 0.4 else gen_hw(rng, mps, rng.random() < 0.5)
    return {"kind": "pair", "a": a, "r": r}


def build(d):
    from streamflow.core.scheduling import Hardware, Storage

    st = {k: Storage(mp, sz, set(paths)) for k, mp, sz, paths in d["st"]}
    return Hardware(d["cores"], d["memory"], st or None)


def run_case(sh: Shard, case) -> bool:
    """Returns False when the case refuted a law."""
    from streamflow.core.exception import WorkflowExecutionException
    from vf.models import c14_hw as M

    a, r = build(case["a"]), build(case["r"])
    fa, fr = M.frozen(a), M.frozen(r)
    ma, mr = M.model(a), M.model(r)
    ok = True

    def bad(law, what):
        nonlocal ok
        ok = False
        sh.violation(None, f"{law}: {what}", dict(case, law=law))

    def guarded(law, f, expect_exc=()):
        try:
            return True, f()
        except M.LawBroken as e:
            bad(e.law, e.detail)
        except expect_exc as e:
            return False, e
        except Exception as e:
            bad(law, f"unexpected {type(e).__name__}: {e}")
        return False, None

    # (a + r) - r == a
    sh.count("law_addsub")
    got, x = guarded("addsub", lambda: (a + r) - r)
    if got:
        mx = M.model(x)
        scale = max([ma["cores"], mr["cores"], ma["memory"], mr["memory"]] + list(ma["st"].values()) + list(mr["st"].values()))
        for mp in set(ma["st"]) | set(mr["st"]):
            s = max(ma["st"].get(mp, 0.0), mr["st"].get(mp, 0.0))
            if not M.close(mx["st"].get(mp, 0.0), ma["st"].get(mp, 0.0), s):
                bad("addsub", f"((a+r)-r)[{mp}]={mx['st'].get(mp)!r} but a[{mp}]={ma['st'].get(mp, 0.0)!r}")
                break
        if set(mx["st"]) != set(ma["st"]) | set(mr["st"]):
            bad("addsub", f"mount points of (a+r)-r: {sorted(mx['st'])}")
        if not M.close(mx["cores"], ma["cores"], scale) or not M.close(mx["memory"], ma["memory"], scale):
            bad("addsub", f"cores/memory {mx['cores']!r},{mx['memory']!r} vs {ma['cores']!r},{ma['memory']!r}")
    elif isinstance(x, Exception):
        bad("addsub", f"(a+r)-r raised {x!r}")

    # normalized
    sh.count("law_normalized")
    got, n = guarded("normalized", lambda: a.normalized())
    if got:
        okn, detail = M.law_normalized(a, n)
        if not okn:
            bad("normalized", detail)
        n2 = n.normalized()
        if M.frozen(n2) != M.frozen(n) or not n2.is_normalized():
            bad("normalized_idem", "normalized() not idempotent")
        if a.is_normalized() != all(k == s[1] for k, s in zip(a.storage, case["a"]["st"])) and case["a"]["st"]:
            bad("is_normalized", "is_normalized() disagrees with keys == mount points")

    # satisfies
    sh.count("law_satisfies")
    missing = set(mr["st"]) - set(ma["st"])
    exp = M.model_satisfies(ma, mr)
    got, s = guarded("satisfies", lambda: a.satisfies(r), expect_exc=(WorkflowExecutionException,))
    if got:
        if s is not exp:
            bad("satisfies", f"a.satisfies(r)={s!r}, model says {exp!r}")
        elif missing and ma["cores"] >= mr["cores"] and ma["memory"] >= mr["memory"]:
            sh.count("satisfies_missing_mount_no_raise")
            bad("satisfies", f"r names mount point(s) {sorted(missing)} that a lacks and satisfies() returned {s!r} instead of raising")
        sh.count("satisfies_true" if s else "satisfies_false")
    elif isinstance(s, WorkflowExecutionException):
        if not missing:
            bad("satisfies", f"raised although a has every mount point of r: {s}")
        sh.count("satisfies_raise_missing_mount")

    # a - r : raises exactly when a mount point of both would become negative
    sh.count("law_sub")
    # a negative result must raise; a rounding-size one (within 1e-9 relative of the operands) may be absorbed
    tiny = lambda mp: 1e-9 * max(1.0, ma["st"][mp], mr["st"][mp])
    neg = [mp for mp in ma["st"] if mp in mr["st"] and ma["st"][mp] - mr["st"][mp] < 0]
    clearly_neg = [mp for mp in neg if ma["st"][mp] - mr["st"][mp] < -tiny(mp)]
    got, d = guarded("sub", lambda: a - r, expect_exc=(WorkflowExecutionException,))
    if got:
        if clearly_neg:
            bad("sub", f"a-r returned although {clearly_neg} is negative")
        if neg and not clearly_neg:
            sh.count("sub_rounding_residue_absorbed")
        if set(mr["st"]) - set(ma["st"]):
            sh.count("sub_foreign_mount_recorded")
        if exp and not missing:
            # what the scheduler relies on: a capacity that satisfies r can give it and take it back
            got2, back = guarded("subadd", lambda: d + r)
            if got2:
                mb = M.model(back)
                for mp, v in ma["st"].items():
                    if not M.close(mb["st"].get(mp, 0.0), v, v):
                        bad("subadd", f"((a-r)+r)[{mp}]={mb['st'].get(mp)!r} but a[{mp}]={v!r}")
                        break
    elif isinstance(d, WorkflowExecutionException):
        if not neg:
            bad("sub", f"a-r raised although no mount point becomes negative: {d}")
        sh.count("sub_negative_raises")
    if exp and neg:
        bad("satisfies", f"model says a satisfies r but {neg} would be negative")

    # a | r
    sh.count("law_or")
    clash = [k for k in a.storage if k in r.storage and a.storage[k].mount_point != r.storage[k].mount_point]
    got, o = guarded("or", lambda: a | r, expect_exc=(ArithmeticError,))
    if got:
        if clash:
            bad("or", f"a|r returned although key(s) {clash} name different mount points")
        okn, detail = M.law_or(build(case["a"]), build(case["r"]), o)
        if not okn:
            bad("or", detail)
        sh.count("or_cores_summed" if o.cores == a.cores + r.cores else "or_cores_other")
    elif isinstance(o, ArithmeticError):
        if not clash:
            bad("or", f"a|r raised {o} without a key clash")
        sh.count("or_clash_raises")

    if M.frozen(a) != fa or M.frozen(r) != fr:
        bad("nomut", "an operator mutated its operand")

    nontrivial = any(s[2] > 0 for s in case["a"]["st"] + case["r"]["st"])
    sh.case(("pair", case["a"], case["r"]), nontrivial=nontrivial)
    if len(case["a"]["st"]) != len(ma["st"]) or len(case["r"]["st"]) != len(mr["st"]):
        sh.count("cases_with_aliasing")
    return ok


def storage_cases(sh: Shard, rng, n):
    """Storage operators directly (the contracts judge; here: raise behaviour)."""
    from streamflow.core.exception import WorkflowExecutionException
    from streamflow.core.scheduling import Storage
    from vf.models import c14_hw as M

    for _ in range(n):
        mp1 = rng.choice(MOUNTS)
        mp2 = mp1 if rng.random() < 0.8 else rng.choice(MOUNTS)
        x, y = val(rng), val(rng)
        a, b = Storage(mp1, x, {mp1 + "/a"}), Storage(mp2, y, {mp2 + "/b"})
        case = {"kind": "storage", "mp1": mp1, "mp2": mp2, "x": x, "y": y}
        for op, f in (("add", lambda: a + b), ("sub", lambda: a - b), ("or", lambda: a | b)):
            sh.count("law_storage")
            try:
                res = f()
                if mp1 != mp2:
                    sh.violation(None, f"Storage {op} over different mount points returned {res}", dict(case, op=op))
                elif op == "sub" and x - y < -1e-9 * max(1.0, x, y):
                    sh.violation(None, f"Storage sub returned although the result is negative: {res}", dict(case, op=op))
            except M.LawBroken as e:
                sh.violation(None, f"{e.law}: {e.detail}", dict(case, op=op))
            except ArithmeticError:
                if mp1 == mp2:
                    sh.violation(None, f"Storage {op} raised ArithmeticError on equal mount points", dict(case, op=op))
            except WorkflowExecutionException:
                if not (op == "sub" and mp1 == mp2 and x - y < 0):
                    sh.violation(None, f"Storage {op} raised WorkflowExecutionException", dict(case, op=op))
            except Exception as e:
                sh.violation(None, f"Storage {op} raised {type(e).__name__}: {e}", dict(case, op=op))
        sh.case(("storage", mp1, mp2, x, y), nontrivial=x != y)


def scheduler_segment(sh: Shard, n_hist):
    """Part 2: the contracts ride along the real scheduler (record mode); every broken law is a refutation."""
    from vf.harness import c10_sched as H
    from vf.models import c14_hw as M

    before = dict(sh.counters)
    M.MODE["raise"] = False
    del M.FAILURES[:]
    try:
        H.run_histories_for_contracts(sh, n_hist)
    finally:
        M.MODE["raise"] = True
    evals = sum(v - before.get(k, 0) for k, v in sh.counters.items() if k.startswith("c14_contract_"))
    sh.count("sched_contract_evals", evals)
    for f in M.FAILURES[:5]:
        sh.violation(None, f"law {f['law']} broken on an operator call made by the scheduler: {f['detail']}",
                     {"kind": "sched", "law": f["law"], "operands": f["operands"]})
    del M.FAILURES[:]


def run_shard(sh: Shard) -> None:
    from vf.models import c14_hw as M

    M.install(sh.count)
    M.MODE["raise"] = True
    rng = sh.rng("direct", sh.shard)
    # part 2 first (bounded), so that it always runs inside the budget
    try:
        scheduler_segment(sh, sh.pick(40, 600))
    except Exception as e:
        sh.inconclusive_because("scheduler segment crashed: " + short_tb(e))
    storage_cases(sh, rng, sh.pick(2000, 40000))
    n = sh.pick(4000, 200000)
    floor = sh.pick(1000, 20000)  # done whatever the machine load did to the soft budget
    shown = 0
    for i in range(n):
        if i >= floor and sh.out_of_budget():
            break
        case = gen_case(rng)
        run_case(sh, case)
        if shown < 2 and sh.shard == 0 and len(case["a"]["st"]) >= 2 and len(case["r"]["st"]) >= 1:
            shown += 1
            a, r = build(case["a"]), build(case["r"])
            try:
                sat = a.satisfies(r)
            except Exception as e:
                sat = type(e).__name__
            sh.sample({"a": case["a"], "r": case["r"], "a_totals": M.totals(a), "r_totals": M.totals(r),
                       "(a+r)-r": M.totals((a + r) - r), "satisfies": sat})


def replay(sh: Shard, w: dict) -> None:
    from vf.models import c14_hw as M

    M.install(sh.count)
    M.MODE["raise"] = True
    if w.get("kind") == "pair":
        run_case(sh, {"kind": "pair", "a": w["a"], "r": w["r"]})
    elif w.get("kind") == "storage":
        from streamflow.core.scheduling import Storage
        a, b = Storage(w["mp1"], w["x"], {"a"}), Storage(w["mp2"], w["y"], {"b"})
        sh.case(("storage", w["mp1"], w["mp2"], w["x"], w["y"]))
        try:
            {"add": lambda: a + b, "sub": lambda: a - b, "or": lambda: a | b}[w.get("op", "add")]()
        except M.LawBroken as e:
            sh.violation(None, f"{e.law}: {e.detail}", w)
        except Exception:
            pass
    elif w.get("kind") == "sched":
        # the operands of the operator call are in the witness: re-apply the law directly
        ops = [build(o) for o in w["operands"]]
        law = w["law"]
        sh.case(("sched", law, w["operands"]))
        try:
            if law.startswith("add"):
                ops[0] + ops[1]
            elif law.startswith("sub"):
                ops[0] - ops[1]
            elif law.startswith("or"):
                ops[0] | ops[1]
            elif law.startswith("normalized"):
                ops[0].normalized()
            elif law.startswith("satisfies"):
                ops[0].satisfies(ops[1])
        except M.LawBroken as e:
            sh.violation(None, f"{e.law}: {e.detail}", w)
        except Exception:
            pass
