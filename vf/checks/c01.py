"""C01  Scatter -> gather returns the original list in its original order.

Two workloads on the REAL classes, one oracle (the denotation on plain values + exact tags):

direct  a real `GatherStep` (depth 1..3) is fed element tokens, the size token and the two
        termination tokens in a prescribed order: every permutation of {elements, size} for
        n <= 4 (quick) / 6 (thorough) with the size-port termination at enumerated legal positions,
        seeded permutations for lengths 0,1,2,9,10,11,12,13,25,101 and random <= 40, one to three
        lists with different tags ("0", "0.3", "0.10", ...) interleaved on the same port,
        scalar / list / object elements, and lists whose size token never comes (forced gather).
engine  ScatterStep^d -> element-wise stages (harness Transformer with jittered duration, real
        DeployStep/ScheduleStep/ExecuteStep pipeline with jittered job durations, a shuffling
        stage) -> GatherStep^d (d = 1..3, list-level functions between the gathers), several
        root tokens with different tags on the source port, run by the real StreamFlowExecutor
        under `vf.perturb` with several perturbation seeds; a run that becomes quiescent before
        the executor returns is a deadlock (a gather waiting for ever).

Oracle: for every input list (tag T, values xs) exactly one ListToken with tag T is on the gather
output, its value is map(f, xs) in the original order, its elements are tagged T.0, T.1, ... in
numeric order, it precedes the single termination token, nothing else is on the port.
"""
from __future__ import annotations

import asyncio
import itertools
import os
import shutil

from vf.common import Shard, digest, short_tb

PROPERTY = "C01"
META = {
    "text": "Gathering the per-element results of a scattered list gives one list token with the input's tag "
            "holding the element results in the original (numeric index) order, for every length incl. 0 and "
            ">= 10, nested scatters, and every arrival order of elements / size token / terminations that was "
            "explored.",
    "note": "Element-wise stages are harness steps (pure functions with seeded durations); the scatter, gather, "
            "execute/schedule pipeline, ports and executor are the real ones. Arrival orders in the direct path "
            "are exhaustive only up to the stated n; beyond that they are seeded samples.",
    "technique": "denotational oracle on real GatherStep/ScatterStep runs under enumerated and perturbed arrival orders",
}

LENGTHS = [0, 1, 2, 9, 10, 11, 12, 13, 25, 101]
TAGSETS = [["0"], ["0"], ["0.3"], ["0.10"], ["0.3", "0.10"], ["0", "0.3", "0.10"], ["0.0", "0.1", "0.2"],
           ["0.2.1", "0.2.10", "0.11.0"], ["0.9", "0.10", "0.11"]]


def plan(tier):
    q = tier == "quick"
    return {
        "level": "exploration",
        "shards": 16,
        "budget_s": 75 if q else 900,
        "timeout_s": 600 if q else 3600,
        "min_nontrivial": 500 if q else 20000,
        "required_counters": ["direct_runs", "engine_runs", "lists_judged", "runs_reordered_idx_ge10",
                              "exhaustive_orders", "engine_runs_with_exec_pipeline"],
        "rule": "direct: every permutation of n elements + size token (n<=4 quick, n<=6 thorough) x legal positions of "
                "the size-port termination x tags {0, 0.10}; seeded permutations for lengths "
                "0,1,2,9,10,11,12,13,25,101 and random<=40 with 1-3 interleaved lists of different tags, gather "
                "depth 1..3, scalar/list/object elements, optional missing size token. engine: scatter^d -> "
                "stages(fn|exec|shuffle) -> gather^d, d=1..3, x perturbation seeds. distinct = (case, schedule "
                "seed); non-trivial = at least one list with >= 2 elements.",
        "exhaustive": True,
        "assumptions": [
            "element-wise stages are harness steps; the engine's own steps between scatter and gather are not varied",
            "termination of the element port comes after the last element and termination of the size port after "
            "the size token (what a terminating producer does)",
        ],
    }


# ----------------------------------------------------------------------------- generators
def gen_value(rng, kind, i):
    if kind == "scalar":
        return rng.choice([i, f"v{i}", i * 1.5, None if i % 7 == 3 else i])
    if kind == "list":
        return [i, f"x{i}"][: rng.randint(0, 2)] + [i]
    return {"k": i, "s": f"o{i}"}


def gen_direct(rng, small=False):
    depth = rng.choice([1, 1, 1, 1, 2, 2, 3])
    tags = rng.choice(TAGSETS)
    kind = rng.choice(["scalar", "scalar", "list", "object"])
    lists = []
    events = []
    for key in tags:
        n = rng.choice(LENGTHS + [rng.randint(0, 40)]) if not small else rng.randint(0, 6)
        if len(tags) > 1 and n > 25:
            n = rng.choice([10, 11, 12, 13])
        # element tags: depth components under the key; for depth>1 a ragged index space
        if depth == 1:
            etags = [f"{key}.{i}" for i in range(n)]
        else:
            etags = []
            dims = [rng.choice([1, 2, 3, 11, 12] if small or depth == 2 else [1, 2, 3, 11]) for _ in range(depth)]
            if n:
                for idx in itertools.product(*[range(x) for x in dims]):
                    if rng.random() < 0.8:
                        etags.append(key + "." + ".".join(map(str, idx)))
            etags = etags[-60:]
        forced = rng.random() < 0.12 and len(etags) > 0
        vals = [gen_value(rng, kind, i) for i in range(len(etags))]
        lists.append({"key": key, "etags": etags, "vals": vals, "forced": forced})
        evs = [["el", t, v] for t, v in zip(etags, vals)]
        if not forced:
            evs.append(["size", key, len(etags)])
        events.extend(evs)
    rng.shuffle(events)
    events = place_terminations(rng, events)
    out = []
    for ev in events:
        if rng.random() < 0.35:
            out.append(["y", rng.randint(1, 4)])
        out.append(ev)
    return {"kind": "direct", "depth": depth, "lists": lists, "events": out}


def place_terminations(rng, events, tsize_pos=None, tin_last=None):
    last_size = max([i for i, e in enumerate(events) if e[0] == "size"], default=-1)
    last_el = max([i for i, e in enumerate(events) if e[0] == "el"], default=-1)
    p_size = rng.randint(last_size + 1, len(events)) if tsize_pos is None else max(tsize_pos, last_size + 1)
    p_in = rng.randint(last_el + 1, len(events))
    if tin_last if tin_last is not None else rng.random() < 0.5:
        p_in = len(events)
    marks = sorted([(p_size, "Tsize"), (p_in, "Tin")], key=lambda x: (x[0], rng.random()))
    res = list(events)
    for off, (p, name) in enumerate(marks):
        res.insert(p + off, [name])
    return res


def exhaustive_direct_cases(nmax):
    """every order of n elements + the size token, x tag, x legal Tsize position (all for n<=3, 3 otherwise)"""
    idx = 0
    for n in range(0, nmax + 1):
        for perm in itertools.permutations(range(n + 1)):
            for key in ("0", "0.10"):
                yield idx, n, perm, key
                idx += 1


def build_exhaustive(rng, n, perm, key):
    base = [["el", f"{key}.{i}", f"v{i}"] for i in range(n)] + [["size", key, n]]
    events = [base[i] for i in perm]
    spos = next(i for i, e in enumerate(events) if e[0] == "size")
    positions = list(range(spos + 1, len(events) + 1))
    if n > 3:
        positions = sorted(set(rng.sample(positions, min(2, len(positions))) + [len(events)]))
    cases = []
    for p in positions:
        ev = place_terminations(rng, events, tsize_pos=p, tin_last=True)
        cases.append({"kind": "direct", "depth": 1, "exh": True,
                      "lists": [{"key": key, "etags": [f"{key}.{i}" for i in range(n)],
                                 "vals": [f"v{i}" for i in range(n)], "forced": False}],
                      "events": ev})
    return cases


def nested(rng, depth, kind, top_n):
    c = [0]

    def leaf():
        c[0] += 1
        return gen_value(rng, kind, c[0])

    def tree(d, n):
        if d == 1:
            return [leaf() for _ in range(n)]
        return [tree(d - 1, rng.choice([0, 1, 2, 3, 4, 11, 12] if d == 2 else [0, 1, 2, 3])) for _ in range(n)]

    return tree(depth, top_n)


def gen_engine(rng, i=None):
    """i (program index in the shard) rotates depth and stage kinds so that the first programs of every
    shard already cover them"""
    depth = rng.choice([1, 1, 1, 2, 2, 3]) if i is None else (1, 2, 1, 3, 1, 2)[i % 6]
    kind = rng.choice(["scalar", "scalar", "list", "object"])
    tags = rng.choice(TAGSETS[:6]) if depth < 3 else rng.choice([["0"], ["0.3", "0.10"]])
    stages = []
    for _ in range(rng.randint(1, 3)):
        k = rng.choice(["fn", "fn", "exec", "shuf"])
        stages.append([k, rng.choice(["inc", "wrap", "pair", "id", "str"]) if k != "shuf" else rng.choice([0, 0, 3, 7])])
    if i is not None and i % 3 == 0 and not any(s[0] == "exec" for s in stages):
        stages[rng.randrange(len(stages))] = ["exec", rng.choice(["inc", "wrap", "pair"])]
    if i is not None and i % 3 == 1 and not any(s[0] == "shuf" for s in stages):
        stages.append(["shuf", rng.choice([0, 5])])
    has_exec = any(s[0] == "exec" for s in stages)
    roots = []
    for t in tags:
        if depth == 1:
            n = rng.choice(LENGTHS + [rng.randint(0, 40)])
            if i is not None and i % 3 in (0, 1):
                n = rng.choice([11, 12, 13, 25])
            if has_exec and n > 25:
                n = 25
            if len(tags) > 1 and n > 25:
                n = 13
        else:
            n = rng.choice([0, 1, 2, 3, 10, 11, 12] if depth == 2 else [0, 1, 2, 3, 11])
        roots.append([t, nested(rng, depth, kind, n)])
    mids = [rng.choice([None, None, "rev", "len", "tail", "id"]) for _ in range(depth)]
    return {"kind": "engine", "depth": depth, "roots": roots, "stages": stages, "mids": mids,
            "size_delay": rng.choice([0, 0, 15, 60])}


# ----------------------------------------------------------------------------- oracle
def tkey(t):
    return tuple(int(x) for x in t.split("."))


def judge_lists(sh, out, expected):
    """expected: {tag: (values, etags or None)}.  Returns list of problems (strings)."""
    probs = []
    terms = [i for i, o in enumerate(out) if "term" in o]
    if len(terms) != 1 or terms[0] != len(out) - 1:
        probs.append(f"termination tokens at positions {terms} of {len(out)} tokens (want exactly one, last)")
    elif out[-1]["term"] not in ("COMPLETED", "SKIPPED"):
        probs.append(f"gather output terminated with {out[-1]['term']}")
    data = [o for o in out if "term" not in o]
    seen = {}
    for o in data:
        if "value" not in o:
            probs.append(f"non-list token {o} on the gather output")
            continue
        seen.setdefault(o["tag"], []).append(o)
    for tag, (vals, etags) in expected.items():
        sh.count("lists_judged")
        got = seen.pop(tag, [])
        if not got:
            probs.append(f"no list with tag {tag!r} (missing output list)")
            continue
        if len(got) > 1:
            probs.append(f"{len(got)} lists with tag {tag!r} (duplicated output list): lengths {[len(g['value']) for g in got]}")
        g = got[0]
        if g["value"] != vals:
            if len(g["value"]) < len(vals):
                probs.append(f"list {tag!r} has {len(g['value'])} elements, expected {len(vals)} (gather fired early / lost elements)")
            elif sorted(map(repr, g["value"])) == sorted(map(repr, vals)):
                bad = next(i for i, (a, b) in enumerate(zip(g["value"], vals)) if a != b)
                probs.append(f"list {tag!r} holds the right elements in the wrong order (first difference at index {bad}: element tags {g['etags'][:14]}...)")
            else:
                probs.append(f"list {tag!r} value differs from the denotation: got {str(g['value'])[:200]} expected {str(vals)[:200]}")
        if etags is not None and g["etags"] != etags:
            probs.append(f"list {tag!r} element tags {g['etags'][:14]} != expected {etags[:14]}")
    for tag, got in seen.items():
        probs.append(f"unexpected list with tag {tag!r} (no input list has this tag): {str(got[0]['value'])[:120]}")
    return probs


def denote_engine(case):
    from vf.harness.c01_common import apply_fn

    d = case["depth"]
    fns = [f for k, f in case["stages"] if k in ("fn", "exec")]

    def leaf(x):
        for f in fns:
            x = apply_fn(f, x)
        return x

    def go(v, lvl):  # lvl = scatter levels still to open
        if lvl == 0:
            return leaf(v)
        res = [go(e, lvl - 1) for e in v]
        # the list built by gather level (d - lvl); a mid function follows every gather but the outermost
        gl = d - lvl
        mid = case["mids"][d - 1 - gl] if case.get("mids") else None
        if mid and gl > 0:
            res = apply_fn("L" + mid, res)
        return res

    return {t: go(v, d) for t, v in case["roots"]}


def expected_deep(tag, v, lvl):
    if lvl == 0:
        return None
    return [(f"{tag}.{i}", expected_deep(f"{tag}.{i}", e, lvl - 1)) for i, e in enumerate(v)]


def strip_deep(deep, lvl):
    """keep only `lvl` gather levels of the observed nested tags"""
    if lvl == 0 or deep is None:
        return None
    return [(t, strip_deep(d, lvl - 1)) for t, d in deep]


# ----------------------------------------------------------------------------- classification
def classify(case, probs):
    """No C01 defect is known on the pinned tree: everything is unclassified."""
    return None


# ----------------------------------------------------------------------------- running
class Runner:
    def __init__(self, sh: Shard):
        self.sh = sh
        self.ctx = None
        self.n = 0
        self.dir = os.path.join(sh.scratch, "c01")
        self.orders = set()
        self.engine_traces = {}
        self.len_hist = {}
        self.depth_hist = {}

    async def context(self):
        from vf.harness.ctx import close_context, make_context

        if self.ctx is not None and self.n % 150 == 0:
            await self.close()
        if self.ctx is None:
            shutil.rmtree(self.dir, ignore_errors=True)
            self.ctx = make_context(self.dir)
        self.n += 1
        return self.ctx

    async def close(self):
        from vf.harness.ctx import close_context

        if self.ctx is not None:
            try:
                await close_context(self.ctx)
            except Exception:
                pass
            self.ctx = None
        shutil.rmtree(self.dir, ignore_errors=True)

    async def broken_context(self):
        """after a deadlock / crash the context may hold pending engine state: drop it"""
        self.ctx = None

    # -- direct ---------------------------------------------------------------
    async def direct(self, case):
        from vf.harness import c01_runners as R
        from vf.perturb import Deadlock, Sched, WallTimeout

        sh = self.sh
        ctx = await self.context()
        Sched.reset(0, 0, enabled=False)  # the order is prescribed by the case itself
        sh.count("direct_runs")
        if case.get("exh"):
            sh.count("exhaustive_orders")
        total = sum(len(l["etags"]) for l in case["lists"])
        ckey = ("direct", digest(case, 16))
        nontrivial = any(len(l["etags"]) >= 2 for l in case["lists"])
        try:
            obs = await R.run_direct(ctx, case, wall=sh.pick(60, 300))
        except Deadlock as e:
            sh.case(ckey, nontrivial)
            sh.violation(None, "GatherStep never terminated although both input ports were terminated (loop quiescent)",
                         {"case": case, "stacks": e.stacks[:6]})
            await self.broken_context()
            return
        except WallTimeout as e:
            sh.inconclusive_because(f"direct case hit the wall-clock watchdog: {str(e)[:300]}")
            await self.broken_context()
            return
        except Exception as e:
            sh.case(ckey, nontrivial)
            sh.violation(None, f"GatherStep.run raised {type(e).__name__}: {e}", {"case": case, "tb": short_tb(e)})
            await self.broken_context()
            return
        sh.case(ckey, nontrivial)
        expected = {}
        for l in case["lists"]:
            order = sorted(range(len(l["etags"])), key=lambda i: tkey(l["etags"][i]))
            expected[l["key"]] = ([l["vals"][i] for i in order], [l["etags"][i] for i in order])
        probs = judge_lists(sh, obs["out"], expected)
        if not obs["terminated"]:
            probs.append("step.terminated is False after run() returned")
        # arrival-order coverage
        els = [e[1] for e in case["events"] if e[0] == "el"]
        self.orders.add(digest([e[:2] for e in case["events"] if e[0] != "y"], 12))
        if reordered_ge10(els):
            sh.count("runs_reordered_idx_ge10")
        self.len_hist[bucket(total)] = self.len_hist.get(bucket(total), 0) + 1
        self.depth_hist[f"direct-depth{case['depth']}"] = self.depth_hist.get(f"direct-depth{case['depth']}", 0) + 1
        if any(l["forced"] for l in case["lists"]):
            sh.count("forced_gather_lists")
        if probs:
            sh.violation(classify(case, probs), "; ".join(probs)[:1500], {"case": case, "observed": obs["out"]})
        elif total >= 10:
            sh.sample({"kind": "direct", "depth": case["depth"],
                       "arrival_order": [e[1] if e[0] == "el" else e[0] + (":" + e[1] if e[0] == "size" else "")
                                         for e in case["events"] if e[0] != "y"][:30],
                       "output": [{k: (v[:14] if isinstance(v, list) else v) for k, v in o.items()} for o in obs["out"]]}, limit=2)

    # -- engine ---------------------------------------------------------------
    async def engine(self, case, sched_seed):
        from vf.harness import c01_runners as R
        from vf.perturb import Deadlock, WallTimeout

        sh = self.sh
        ctx = await self.context()
        sh.count("engine_runs")
        if any(s[0] == "exec" for s in case["stages"]):
            sh.count("engine_runs_with_exec_pipeline")
        cd = digest(case, 16)
        ckey = ("engine", cd, sched_seed)
        nontrivial = any(count_leaves(v, case["depth"]) >= 2 for _, v in case["roots"])
        wit = {"case": case, "sched_seed": sched_seed}
        try:
            obs = await R.run_engine(ctx, case, self.dir, sched_seed, wall=sh.pick(60, 300))
        except Deadlock as e:
            sh.case(ckey, nontrivial)
            sh.violation(None, "scatter/gather program never terminated: event loop quiescent while the executor was pending",
                         dict(wit, stacks=e.stacks[:8]))
            await self.broken_context()
            return
        except WallTimeout as e:
            sh.inconclusive_because(f"engine case hit the wall-clock watchdog: {str(e)[:300]}")
            await self.broken_context()
            return
        sh.case(ckey, nontrivial)
        den = denote_engine(case)
        expected = {t: (v, [f"{t}.{i}" for i in range(len(v))] if isinstance(v, list) else None) for t, v in den.items()}
        probs = judge_lists(sh, obs["out"], expected)
        if obs["err"]:
            probs.append(f"executor raised {obs['err']}")
        bad = {k: v for k, v in obs["statuses"].items() if v not in ("COMPLETED", "SKIPPED")}
        if bad:
            probs.append(f"steps not COMPLETED/SKIPPED after the run: {bad}")
        # nested tags: every gather level must rebuild the index path (only without list-level functions)
        if not probs and not any((case.get("mids") or [])[: case["depth"] - 1]):
            raw = {t: v for t, v in case["roots"]}
            for o, deep in zip([o for o in obs["out"] if "term" not in o], obs["deep"]):
                want = expected_deep(o["tag"], raw[o["tag"]], case["depth"])
                got = strip_deep(deep, case["depth"])
                sh.count("nested_tag_trees_judged")
                if got != want:
                    probs.append(f"nested element tags of list {o['tag']!r} differ: {str(got)[:300]} expected {str(want)[:300]}")
        self.engine_traces.setdefault(cd, set()).add(obs["trace"])
        inner = obs["arrivals"][0]
        self.orders.add(digest(inner, 12))
        if reordered_ge10(inner):
            sh.count("runs_reordered_idx_ge10")
        tot = sum(count_leaves(v, case["depth"]) for _, v in case["roots"])
        self.len_hist[bucket(tot)] = self.len_hist.get(bucket(tot), 0) + 1
        self.depth_hist[f"engine-depth{case['depth']}"] = self.depth_hist.get(f"engine-depth{case['depth']}", 0) + 1
        if probs:
            sh.violation(classify(case, probs), "; ".join(probs)[:1500], dict(wit, observed=obs["out"], statuses=obs["statuses"]))
        elif tot >= 10 and reordered_ge10(inner):
            sh.sample({"kind": "engine", "depth": case["depth"], "stages": case["stages"], "sched_seed": sched_seed,
                       "arrival_order_at_inner_gather": inner[:30],
                       "output": [{k: (v[:14] if isinstance(v, list) else v) for k, v in o.items()} for o in obs["out"]]}, limit=3)


def count_leaves(v, d):
    if d == 0:
        return 1
    return sum(count_leaves(e, d - 1) for e in v)


def bucket(n):
    for b in (0, 1, 2, 9, 13, 25, 50, 101):
        if n <= b:
            return f"<={b}"
    return ">101"


def reordered_ge10(tags):
    """some list has an element with last index >= 10 arriving before a smaller index of the same list"""
    best = {}
    for t in tags:
        p = t.rsplit(".", 1)
        if len(p) != 2:
            continue
        k, i = p[0], int(p[1])
        if k in best and best[k] >= 10 and i < best[k]:
            return True
        best[k] = max(best.get(k, -1), i)
    return False


async def _run(sh: Shard):
    r = Runner(sh)
    try:
        # 1. exhaustive small scope (sharded)
        nmax = sh.pick(4, 6)
        completed = True
        for idx, n, perm, key in exhaustive_direct_cases(nmax):
            if not sh.mine(idx):
                continue
            for case in build_exhaustive(sh.rng("exh", idx), n, perm, key):  # never cut by the budget
                await r.direct(case)
        sh.note("exhaustive_scope", {"n_max": nmax, "completed": completed})
        # 2. fixed lengths, every shard a different seed; then random until the budget is spent
        i = 0
        n_direct = sh.pick(60, 4000)
        n_prog = sh.pick(18, 900)
        n_seeds = sh.pick(3, 8)
        while not sh.out_of_budget() and (i < n_direct or i < n_prog):
            if i < n_direct:
                await r.direct(gen_direct(sh.rng("direct", sh.shard, i)))
            if i < n_prog and not sh.out_of_budget():
                case = gen_engine(sh.rng("engine", sh.shard, i), i)
                for s in range(n_seeds):
                    await r.engine(case, sh.rng("sched", sh.shard, i, s).randrange(1 << 30))
            i += 1
        sh.note("random_part", {"direct_cases": min(i, n_direct), "engine_programs": min(i, n_prog),
                                "planned": [n_direct, n_prog], "schedule_seeds_per_program": n_seeds})
        sh.note("distinct_arrival_orders", len(r.orders))
        per = [len(v) for v in r.engine_traces.values()]
        sh.note("engine_programs", len(per))
        sh.note("engine_programs_with_2plus_interleavings", sum(1 for x in per if x >= 2))
        sh.note("elements_per_run_histogram", r.len_hist)
        sh.note("workload_histogram", r.depth_hist)
    finally:
        await r.close()


def run_shard(sh: Shard) -> None:
    import vf.perturb as P

    P.install()
    asyncio.run(_run(sh))


def replay(sh: Shard, w: dict) -> None:
    import vf.perturb as P

    P.install()

    async def go():
        r = Runner(sh)
        try:
            case = w["case"]
            if case["kind"] == "direct":
                await r.direct(case)
            else:
                await r.engine(case, w["sched_seed"])
        finally:
            await r.close()

    asyncio.run(go())
