import asyncio, os, sys, tempfile, shutil, collections, hashlib, random
sys.path.insert(0, "/repo")
exec(open("/var/tmp/vfprobe/c24.py").read().split("NAMES =")[0])
from streamflow.core.data import DataType
def digest(root):
    out = {}
    if os.path.isfile(root): return {".": (hashlib.sha1(open(root, "rb").read()).hexdigest(), os.stat(root).st_mode & 0o111)}
    for r, ds, fs in os.walk(root, followlinks=True):
        rel = os.path.relpath(r, root)
        for d in ds: out[os.path.normpath(os.path.join(rel, d)) + "/"] = "dir"
        for f in fs:
            p = os.path.join(r, f); out[os.path.normpath(os.path.join(rel, f))] = (hashlib.sha1(open(p, "rb").read()).hexdigest(), os.stat(p).st_mode & 0o111)
    return out
def mktree(rng, src, hostile):
    os.makedirs(src)
    names = ["a.bin", "sub/in.txt", "sub/deep/z", "exe.sh"] + (["sp ace", "qu'ote", "do$llar", "-dash", "üni"] if hostile else [])
    for nm in rng.sample(names, rng.randint(1, len(names))):
        p = os.path.join(src, nm); os.makedirs(os.path.dirname(p), exist_ok=True); open(p, "wb").write(os.urandom(rng.choice([0, 1, 513, 70000])))
        if nm.endswith(".sh") or rng.random() < 0.2: os.chmod(p, 0o755)
    if rng.random() < 0.4: os.makedirs(os.path.join(src, "emptydir"))
async def main():
    base = tempfile.mkdtemp(dir="/var/tmp/vfprobe"); rng = random.Random(3)
    ctx = build_context({"database": {"type": "default", "config": {"connection": ":memory:"}}, "path": base})
    for n in ("remA", "remB"): await ctx.deployment_manager.deploy(DeploymentConfig(name=n, type="vf-shell", config={}, external=False, lazy=False, workdir=base))
    await ctx.deployment_manager.deploy(DeploymentConfig(name="__LOCAL__", type="local", config={}, external=True, lazy=False, workdir=base))
    locs = {}
    for n in ("remA", "remB", "__LOCAL__"): locs[n] = next(iter((await ctx.deployment_manager.get_connector(n).get_available_locations()).values())).location
    kinds = collections.Counter(); shown = collections.Counter(); n = 0
    for trial in range(int(sys.argv[1])):
        hostile = len(sys.argv) > 2
        for s in locs:
            for d in locs:
                for kind in ("dir", "file"):
                    for writable in (True, False):
                        case = os.path.join(base, f"c{n}"); n += 1
                        src = os.path.join(case, "S", "src"); mktree(rng, src, hostile)
                        if kind == "file":
                            f = os.path.join(case, "S", "one.dat"); open(f, "wb").write(os.urandom(3000)); os.chmod(f, 0o755); srcp = f
                        else: srcp = src
                        dstp = os.path.join(case, "D", os.path.basename(srcp) if rng.random() < 0.5 else "renamed")
                        if rng.random() < 0.3: os.makedirs(os.path.join(case, "D"))
                        ctx.data_manager.register_path(locs[s], srcp, os.path.basename(srcp))
                        try:
                            await asyncio.wait_for(ctx.data_manager.transfer_data(locs[s], srcp, [locs[d]], dstp, writable=writable), 20)
                            r = "ok"
                        except asyncio.TimeoutError: r = "HANG"
                        except BaseException as e: r = "exc:" + type(e).__name__ + ":" + str(e)[:60]
                        same = os.path.exists(dstp) and digest(dstp) == digest(srcp)
                        reg = bool(ctx.data_manager.get_data_locations(dstp, locs[d].deployment, locs[d].name))
                        if r != "ok" or not same or not reg:
                            k = f"{s}->{d} {kind} w={writable}: {r if r != 'ok' else ''} {'DIFF' if not same else ''} {'UNREG' if not reg else ''}"; kinds[k] += 1
                            if shown[k] < 1 and not same and r == "ok":
                                shown[k] += 1; a, b = digest(srcp), digest(dstp) if os.path.exists(dstp) else {}
                                print(k, "missing", sorted(set(a) - set(b))[:3], "extra", sorted(set(b) - set(a))[:3], "changed", [x for x in a if x in b and a[x] != b[x]][:3])
                        shutil.rmtree(case, ignore_errors=True)
    print("transfers", n); [print("  ", k, v) for k, v in sorted(kinds.items())]
    await ctx.deployment_manager.undeploy_all(); await ctx.close(); shutil.rmtree(base)
asyncio.run(main())
