import sys, random, collections, copy
sys.path.insert(0, "/repo")
from pathlib import PurePosixPath
from streamflow.config.config import WorkflowConfig
from streamflow.deployment.utils import get_binding_config
from streamflow.core.exception import WorkflowDefinitionException
from streamflow.core.deployment import LocalTarget
import logging; logging.getLogger("streamflow").setLevel(logging.CRITICAL)

def ref_workdir(deps, name):
    seen = set()
    while True:
        d = deps[name]
        if d.get("workdir") is not None: return d["workdir"]
        w = d.get("wraps")
        if w is None: return None
        name = w if isinstance(w, str) else w["deployment"]
def has_cycle(deps):
    for n in deps:
        seen = {n}; cur = n
        while (w := deps[cur].get("wraps")) is not None:
            cur = w if isinstance(w, str) else w["deployment"]
            if cur in seen: return True
            seen.add(cur)
    return False
def ref_binding(bindings, path):
    parts = PurePosixPath(path).parts
    best = None
    for b in bindings:
        if "step" not in b: continue
        bp = PurePosixPath(b["step"]).parts
        if parts[:len(bp)] == bp:
            if best is None or len(bp) >= len(PurePosixPath(best["step"]).parts): best = b   # later binding on same path overrides
    return best

rng = random.Random(7); kinds = collections.Counter(); n = 0; shown = collections.Counter()
names = ["a", "b", "c"]
for trial in range(20000):
    nd = rng.randint(1, 4); deps = {}
    for i in range(nd):
        d = {"type": "local", "config": {}}
        if rng.random() < 0.4: d["workdir"] = f"/wd{i}"
        if rng.random() < 0.6:
            w = f"d{rng.randrange(nd)}"
            d["wraps"] = w if rng.random() < 0.5 else {"deployment": w, "service": "s"}
        deps[f"d{i}"] = d
    bindings = []
    for _ in range(rng.randint(1, 8)):
        depth = rng.randint(0, 4); p = "/" + "/".join(rng.choice(names) for _ in range(depth))
        tg = [{"deployment": rng.choice(list(deps))} for _ in range(rng.randint(1, 2))]
        for t in tg:
            if rng.random() < 0.3: t["workdir"] = "/tw" + str(rng.randrange(3))
        if rng.random() < 0.25:
            bindings.append({"port": p + ("/" if p != "/" else "") + "out", "target": {"deployment": rng.choice(list(deps)), "workdir": "/pw"}})
        else:
            bindings.append({"step": p, "target": tg if len(tg) > 1 or rng.random() < 0.5 else tg[0]})
    cfg = {"version": "v1.0", "workflows": {"w": {"type": "cwl", "config": {"file": "x.cwl"}, "bindings": copy.deepcopy(bindings)}}, "deployments": copy.deepcopy(deps)}
    cyc = has_cycle(deps)
    try:
        wc = WorkflowConfig("w", cfg); raised = False
    except WorkflowDefinitionException: raised = True
    n += 1
    if raised != cyc:
        kinds["cycle-mismatch"] += 1
        if shown["cycle"] < 3: shown["cycle"] += 1; print("cycle", cyc, raised, deps)
        continue
    if raised: continue
    # queries
    for _ in range(12):
        depth = rng.randint(0, 5); q = "/" + "/".join(rng.choice(names + ["z"]) for _ in range(depth))
        bc = get_binding_config(q, "step", wc)
        exp = ref_binding(bindings, q)
        if exp is None:
            ok = len(bc.targets) == 1 and isinstance(bc.targets[0], LocalTarget)
            if not ok: kinds["expected-local"] += 1
            continue
        et = exp["target"] if isinstance(exp["target"], list) else [exp["target"]]
        got = [(t.deployment.name, t.workdir) for t in bc.targets]
        want = []
        for t in et:
            wd = t.get("workdir") or ref_workdir(deps, t["deployment"])
            want.append((t["deployment"], wd))
        # Target fills default workdir when None: compare only when want wd not None
        bad = len(got) != len(want) or any(g[0] != w[0] or (w[1] is not None and g[1] != w[1]) for g, w in zip(got, want))
        if bad:
            kinds["binding-mismatch"] += 1
            if shown["b"] < 4: shown["b"] += 1; print("q", q, "got", got, "want", want, "bindings", bindings)
print("configs", n, dict(kinds))
