import asyncio, os, sys, random, collections, tempfile, shutil
sys.path.insert(0, "/repo")
from streamflow.main import build_context
from streamflow.core.config import BindingConfig
from streamflow.core.deployment import DeploymentConfig, Target
from streamflow.core.scheduling import AvailableLocation, Hardware, Storage, HardwareRequirement
from streamflow.core.workflow import Job, Status
from streamflow.deployment.connector import connector_classes
from streamflow.deployment.connector.local import LocalConnector
import logging; logging.getLogger("streamflow").setLevel(logging.CRITICAL)

class HW(LocalConnector):
    def __init__(self, deployment_name, config_dir, locations=None, transferBufferSize=65536):
        super().__init__(deployment_name, config_dir, transferBufferSize); self.locs = locations
    async def get_available_locations(self, service=None):
        await asyncio.sleep(0)
        out = {}
        for n, v in self.locs.items():
            hw = None
            if "cores" in v:
                st = {"/": Storage("/", 1e9)}
                for mp, cap in v["disks"].items(): st[mp] = Storage(mp, cap)
                hw = Hardware(cores=v["cores"], memory=v["memory"], storage=st)
            out[n] = AvailableLocation(name=n, deployment=self.deployment_name, service=service, hostname="localhost", local=True, slots=v.get("slots"), hardware=hw)
        return out
connector_classes["vf-hw"] = HW

class Req(HardwareRequirement):
    def __init__(self, cores, memory, disks): self.cores=cores; self.memory=memory; self.disks=disks
    @classmethod
    async def _load(cls,row,lc): raise NotImplementedError
    async def _save_additional_params(self, db): return {}
    def eval(self, job): return Hardware(cores=self.cores, memory=self.memory, storage={k: Storage(os.sep, size, {path}) for k,(path,size) in self.disks.items()} or None)

ACTIVE = (Status.FIREABLE, Status.RUNNING)
async def settle(n=12):
    for _ in range(n): await asyncio.sleep(0)

async def one(seed, root):
    rng = random.Random(seed)
    ctx = build_context({"database": {"type": "default", "config": {"connection": ":memory:"}}, "path": os.getcwd()})
    sch = ctx.scheduler
    mps = [os.path.join(root, "m1"), os.path.join(root, "m2")]
    for m in mps: os.makedirs(os.path.join(m, "d"), exist_ok=True)
    ndep = rng.randint(1, 2); deps = {}; caps = {}
    for d in range(ndep):
        locs = {}
        for l in range(rng.randint(1, 3)):
            name = f"s{seed}-d{d}-l{l}"
            if rng.random() < 0.7:
                locs[name] = {"cores": float(rng.randint(1, 4)), "memory": float(rng.choice([100, 200])), "disks": {m: float(rng.choice([10, 20])) for m in mps}}
            else:
                locs[name] = {"slots": rng.randint(1, 2)}
            caps[name] = locs[name]
        dc = DeploymentConfig(name=f"s{seed}-d{d}", type="vf-hw", config={"locations": locs}, external=True, lazy=False, workdir=root)
        await ctx.deployment_manager.deploy(dc); deps[dc.name] = dc
    jobs = {}; reqs = {}; tasks = {}
    njobs = rng.randint(2, 8)
    for j in range(njobs):
        name = f"/st{j%2}/0.{j}"
        disks = {}
        for k in range(rng.randint(0, 2)):
            m = rng.choice(mps); disks[f"k{k}"] = (os.path.join(m, "d"), float(rng.choice([1, 5, 10])))
        reqs[name] = Req(float(rng.choice([0.5, 1, 2])), float(rng.choice([10, 50, 100])), disks)
        tl = rng.sample(list(deps.values()), rng.randint(1, len(deps)))
        jobs[name] = (Job(name, 1, {}, root, root, root), BindingConfig(targets=[Target(deployment=dc, workdir=root) for dc in tl]))
    def ledger():
        used = collections.defaultdict(lambda: collections.defaultdict(float)); cnt = collections.Counter()
        for jn, alloc in sch.job_allocations.items():
            if alloc.status in ACTIVE:
                for loc in alloc.locations:
                    r = reqs[jn]; used[loc.name]["cores"] += r.cores; used[loc.name]["memory"] += r.memory; cnt[loc.name] += 1
                    for k, (path, size) in r.disks.items():
                        mp = next(m for m in mps if path.startswith(m)); used[loc.name][mp] += size
        return used, cnt
    def check_c10(tag):
        used, cnt = ledger()
        for ln, u in used.items():
            c = caps[ln]
            if "cores" in c:
                if u["cores"] > c["cores"] + 1e-9 or u["memory"] > c["memory"] + 1e-9: return ("C10-over", tag, ln, dict(u), c)
                for m in mps:
                    if u[m] > c["disks"][m] + 1e-9: return ("C10-over-disk", tag, ln, dict(u), c)
            elif cnt[ln] > c["slots"]: return ("C10-slots", tag, ln, cnt[ln], c)
        return None
    def fits(jn):
        used, cnt = ledger(); r = reqs[jn]
        for t in jobs[jn][1].targets:
            for ln, c in caps.items():
                if not ln.startswith(t.deployment.name + "-"): continue
                if "cores" in c:
                    need = collections.defaultdict(float)
                    for k, (path, size) in r.disks.items(): need[next(m for m in mps if path.startswith(m))] += size
                    if c["cores"] - used[ln]["cores"] >= r.cores and c["memory"] - used[ln]["memory"] >= r.memory and all(c["disks"][m] - used[ln][m] >= need[m] for m in mps): return ln
                elif cnt[ln] < c["slots"]: return ln
        return None
    order = list(jobs); rng.shuffle(order)
    pending = []
    err = None
    for step in range(rng.randint(njobs, njobs * 5)):
        act = rng.random()
        if order and act < 0.45:
            jn = order.pop(); j, bc = jobs[jn]
            tasks[jn] = asyncio.create_task(sch.schedule(j, bc, reqs[jn]))
        else:
            allocd = [jn for jn, a in sch.job_allocations.items()]
            if allocd:
                jn = rng.choice(allocd); st = sch.job_allocations[jn].status
                nxt = {Status.FIREABLE: [Status.RUNNING, Status.RUNNING, Status.CANCELLED, Status.FAILED, Status.RECOVERY], Status.RUNNING: [Status.COMPLETED, Status.COMPLETED, Status.FAILED, Status.CANCELLED, Status.RECOVERY, Status.RUNNING],
                       Status.RECOVERY: [Status.ROLLBACK], Status.COMPLETED: [Status.COMPLETED, Status.ROLLBACK], Status.FAILED: [Status.FAILED], Status.CANCELLED: [Status.CANCELLED], Status.ROLLBACK: []}[st]
                if nxt:
                    s2 = rng.choice(nxt); await sch.notify_status(jn, s2)
                    if s2 == Status.ROLLBACK:
                        j, bc = jobs[jn]; tasks[jn] = asyncio.create_task(sch.schedule(j, bc, reqs[jn]))
        if rng.random() < 0.5: await settle(rng.randint(1, 20))
        err = check_c10(step)
        if err: break
    if not err:
        # drive to completion
        for rounds in range(200):
            await settle(30)
            for jn in order: j, bc = jobs[jn]; tasks[jn] = asyncio.create_task(sch.schedule(j, bc, reqs[jn]))
            order = []
            await settle(30)
            err = check_c10("drain")
            if err: break
            waiting = [jn for jn, t in tasks.items() if not t.done()]
            # C12 at quiescence
            for jn in waiting:
                if fits(jn): err = ("C12-pending-but-fits", jn, fits(jn)); break
            if err: break
            act = [jn for jn, a in sch.job_allocations.items() if a.status in ACTIVE]
            if not act and not waiting: break
            if not act and waiting:
                # nothing active, yet waiting: either never fits total capacity (ok) or lost wakeup
                break
            jn = rng.choice(act); st = sch.job_allocations[jn].status
            await sch.notify_status(jn, Status.RUNNING if st == Status.FIREABLE else Status.COMPLETED)
        if not err:
            await settle(30)
            for ln, hw in sch.hardware_locations.items():
                if abs(hw.cores) > 1e-9 or abs(hw.memory) > 1e-9: 
                    act = [jn for jn, a in sch.job_allocations.items() if a.status in ACTIVE]
                    if not act: err = ("C11-leak", ln, hw.cores, hw.memory); break
    for t in tasks.values(): t.cancel()
    await asyncio.gather(*tasks.values(), return_exceptions=True)
    await ctx.database.close()
    return err

async def main():
    root = tempfile.mkdtemp(dir="/var/tmp/vfprobe"); kinds = collections.Counter(); shown = collections.Counter()
    for s in range(int(sys.argv[1])):
        e = await one(s, root)
        if e:
            kinds[e[0]] += 1
            if shown[e[0]] < 3: shown[e[0]] += 1; print(s, e)
    print(dict(kinds)); shutil.rmtree(root)
asyncio.run(main())
