import json, os, random, subprocess, sys, tempfile, shutil, concurrent.futures as cf, collections, yaml
STRS = ["plain", "a b", "it's", 'q"q', "$HOME", "`id`", "a;b", "*", "", "-x", "ü✓", "a\\b", "two  spaces", "#c", "~", "a&b", "(p)", "new\nline", "tab\tx"]
def gen(rng):
    inputs = {}; job = {}
    for i in range(rng.randint(1, 6)):
        n = f"i{i}"; t = rng.choice(["string", "int", "boolean", "string[]", "int[]", "string?", "File"])
        b = {"position": rng.choice([0, 1, 2, 5, -1])}
        if rng.random() < 0.5: b["prefix"] = rng.choice(["-p", "--long", "--eq=", "-"])
        if "prefix" in b and rng.random() < 0.4: b["separate"] = False
        if t.endswith("[]") and rng.random() < 0.5: b["itemSeparator"] = rng.choice([",", " ", ";"])
        if rng.random() < 0.15: b["valueFrom"] = "$(self)x" if t == "string" else "$(self)"
        if rng.random() < 0.15: b["shellQuote"] = rng.random() < 0.5
        inputs[n] = {"type": t, "inputBinding": b}
        if t == "string": job[n] = rng.choice(STRS)
        elif t == "int": job[n] = rng.randint(-3, 99)
        elif t == "boolean": job[n] = rng.random() < 0.5
        elif t == "string[]": job[n] = [rng.choice(STRS) for _ in range(rng.randint(0, 3))]
        elif t == "int[]": job[n] = [rng.randint(0, 9) for _ in range(rng.randint(0, 3))]
        elif t == "string?": job[n] = rng.choice([None, rng.choice(STRS)])
        elif t == "File": job[n] = {"class": "File", "path": "in file.txt"}
    tool = {"cwlVersion": "v1.2", "class": "CommandLineTool", "baseCommand": ["python3", "-c", "import sys,json,os; print(json.dumps({'argv': sys.argv[1:], 'env': os.environ.get('VFENV')}))"],
            "requirements": {"InlineJavascriptRequirement": {}}, "inputs": inputs, "stdout": "argv.json", "outputs": {"o": {"type": "stdout"}}}
    if rng.random() < 0.4: tool["arguments"] = [rng.choice(["-A", {"valueFrom": "$(inputs.i0)", "position": 3}, {"prefix": "--arg", "valueFrom": "lit eral"}])]
    if rng.random() < 0.3: tool["requirements"]["ShellCommandRequirement"] = {}
    if rng.random() < 0.3: tool["requirements"]["EnvVarRequirement"] = {"envDef": {"VFENV": rng.choice(["plain", "sp ace", "q'q"])}}
    return tool, job
def run_one(i):
    rng = random.Random(i); tool, job = gen(rng)
    d = tempfile.mkdtemp(dir="/var/tmp/vfprobe"); open(f"{d}/in file.txt", "w").write("x")
    yaml.safe_dump(tool, open(f"{d}/t.cwl", "w")); yaml.safe_dump(job, open(f"{d}/j.yml", "w"))
    env = dict(os.environ, TMPDIR=d, HOME=d)
    r1 = subprocess.run(["/venv/bin/cwltool", "--quiet", "--outdir", f"{d}/ref", f"{d}/t.cwl", f"{d}/j.yml"], capture_output=True, text=True, env=env, timeout=300)
    code = "import sys; sys.path.insert(0,'/repo'); from streamflow.cwl.runner import main; sys.exit(main(sys.argv[1:]))"
    r2 = subprocess.run(["/venv/bin/python", "-c", code, "--quiet", "--outdir", f"{d}/sf", f"{d}/t.cwl", f"{d}/j.yml"], capture_output=True, text=True, env=env, timeout=300)
    def dump(r, sub):
        if r.returncode != 0: return ("FAIL",)
        try: return ("OK", json.load(open(f"{d}/{sub}/argv.json")))
        except Exception as e: return ("NOFILE", str(e)[:50])
    a, b = dump(r1, "ref"), dump(r2, "sf")
    def strip(x):
        if x[0] != "OK": return x
        return ("OK", {"argv": [v.replace(d, "<D>") for v in x[1]["argv"]], "env": x[1]["env"]})
    # file paths differ (staging dirs): compare basenames for args containing the file name
    def norm(x):
        if x[0] != "OK": return x
        return ("OK", [os.path.basename(v) if "in file.txt" in v else v for v in x[1]["argv"]], x[1]["env"])
    res = (i, norm(a), norm(b), tool if norm(a) != norm(b) else None, job if norm(a) != norm(b) else None, r2.stderr[-300:] if b[0] == "FAIL" and a[0] != "FAIL" else None)
    shutil.rmtree(d, ignore_errors=True); return res
if __name__ == "__main__":
    n = int(sys.argv[1]); kinds = collections.Counter(); shown = 0
    with cf.ThreadPoolExecutor(14) as ex:
        for r in ex.map(run_one, range(n)):
            kinds[(r[1][0], r[2][0], r[1] == r[2])] += 1
            if r[1] != r[2] and shown < 6 and r[1][0] == "OK":
                shown += 1; print(r[0], "\n REF", r[1], "\n SF ", r[2], "\n inputs", json.dumps(r[3]["inputs"])[:500], "\n req", list(r[3]["requirements"]), "args", r[3].get("arguments"), "\n job", r[4], "\n", (r[5] or "")[-200:])
    print({str(k): v for k, v in kinds.items()})
