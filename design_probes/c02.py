import asyncio, itertools, random, sys, collections
sys.path.insert(0, "/repo")
from streamflow.core.workflow import Token
from streamflow.workflow.combinator import DotProductCombinator, CartesianProductCombinator

def parts(t): return t.split(".")
def is_prefix(p, t): return parts(t)[:len(parts(p))] == parts(p)

def ref_dot(streams):
    # streams: port -> list of (tag, value); uniform depth per port, distinct tags per port
    depths = {p: (len(parts(s[0][0])) if s else None) for p, s in streams.items()}
    if any(d is None for d in depths.values()): return collections.Counter()
    D = max(depths.values())
    deep_tags = set()
    for p, s in streams.items():
        if depths[p] == D: deep_tags |= {t for t, _ in s}
    out = collections.Counter()
    for t in deep_tags:
        combo = {}
        for p, s in streams.items():
            m = [v for (tg, v) in s if is_prefix(tg, t)]
            if len(m) != 1: combo = None; break
            combo[p] = m[0]
        if combo is not None:
            out[(t, tuple(sorted(combo.items())))] += 1
    return out

def ref_cart(streams, items, depth=1):
    out = collections.Counter()
    groups = collections.defaultdict(lambda: collections.defaultdict(list))
    for p, s in streams.items():
        for tg, v in s:
            groups[".".join(parts(tg)[:-depth])][p].append((tg, v))
    for g, per in groups.items():
        if len(per) != len(items): continue
        for combo in itertools.product(*[per[p] for p in items]):
            suffix = [parts(tg)[-1] for tg, _ in combo]
            # each port's token gets own prefix + suffix; with equal depth these coincide
            tags = {".".join(parts(tg)[:-1] + suffix) for tg, _ in combo}
            out[(tuple(sorted(tags)), tuple(sorted((p, v) for p, (tg, v) in zip(items, combo))))] += 1
    return out

async def run(comb_factory, streams, order):
    c = comb_factory()
    out = collections.Counter()
    for p, i in order:
        tg, v = streams[p][i]
        async for schema in c.combine(p, Token(value=v, tag=tg)):
            tags = frozenset(s["token"].tag for s in schema.values())
            vals = tuple(sorted((k, s["token"].value) for k, s in schema.items()))
            out[(tags, vals)] = out.get((tags, vals), 0) + 1
    return out

def norm(counter, single):
    r = collections.Counter()
    for (tags, vals), n in counter.items():
        if single:
            assert len(tags) == 1, tags
            r[(next(iter(tags)), vals)] += n
        else:
            r[(tuple(sorted(tags)), vals)] += n
    return r

async def main():
    rng = random.Random(1)
    bad = 0; n = 0; orderdep = 0
    for trial in range(3000):
        nports = rng.choice([2, 3]); ports = [f"p{i}" for i in range(nports)]
        kind = rng.choice(["dot", "cart"])
        streams = {}
        if kind == "dot":
            base = rng.choice(["0", "0.1"])
            D = rng.choice([0, 1, 2])
            for p in ports:
                d = rng.randint(0, D)
                tags = {base}
                for _ in range(d):
                    tags = {t + "." + str(k) for t in tags for k in rng.sample(range(12), rng.randint(1, 2))}
                tags = rng.sample(sorted(tags), min(len(tags), rng.randint(0, 4)))
                streams[p] = [(t, f"{p}@{t}") for t in tags]
            exp = ref_dot(streams)
            def fac():
                c = DotProductCombinator("c", None)
                for p in ports: c.add_item(p)
                return c
        else:
            base = rng.choice(["0", "0.2"])
            for p in ports:
                ks = rng.sample(range(12), rng.randint(0, 3))
                streams[p] = [(f"{base}.{k}", f"{p}@{k}") for k in ks]
            exp = ref_cart(streams, ports)
            def fac():
                c = CartesianProductCombinator("c", None)
                for p in ports: c.add_item(p)
                return c
        events = [(p, i) for p in ports for i in range(len(streams[p]))]
        results = set()
        for _ in range(6):
            rng.shuffle(events)
            got = norm(await run(fac, streams, list(events)), kind == "dot")
            results.add(frozenset(got.items()))
            n += 1
            if got != exp:
                bad += 1
                if bad <= 5: print("MISMATCH", kind, streams, "order", events, "\n  got", dict(got), "\n  exp", dict(exp))
        if len(results) > 1: orderdep += 1
    print("runs", n, "mismatches", bad, "order-dependent stream sets", orderdep)
asyncio.run(main())
