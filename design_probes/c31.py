import json, random, subprocess, sys, collections, tempfile, os
sys.path.insert(0, "/repo")
from streamflow.cwl.utils import resolve_dependencies
import cwl_utils.expression, cwl_utils.types

KEYS = ["a", "b", "c d", "k", "z", "len"]
def gen(rng):
    k = lambda: rng.choice(["a", "b", "z"])
    forms = [
        lambda: f"$(inputs.{k()})",
        lambda: f"$(inputs.{k()}.x)",
        lambda: "$(inputs['c d'])",
        lambda: f"$(inputs[\"{k()}\"])",
        lambda: f"${{return inputs.{k()} + inputs['{k()}'];}}",
        lambda: f"${{var x = inputs; return x.{k()};}}",
        lambda: f"${{var x = inputs.{k()}; return x;}}",
        lambda: f"${{return inputs[inputs.k];}}",
        lambda: f"${{var q='{k()}'; return inputs[q];}}",
        lambda: f"${{function f(inputs){{return inputs.shadow;}} return f({{shadow:1}}) + inputs.{k()};}}",
        lambda: f"${{function g(o){{return o.{k()};}} return g(inputs);}}",
        lambda: f"${{var s = 'inputs.z is text'; return inputs.{k()};}}",
        lambda: f"${{var t=0; for (var p in inputs) {{t++;}} return t;}}",
        lambda: f"${{return Object.keys(inputs).length;}}",
        lambda: f"${{if (inputs.{k()}) {{return inputs.{k()};}} return inputs['{k()}'];}}",
        lambda: f"pre $(inputs.{k()}) mid $(inputs.{k()}) post",
        lambda: f"${{var y; y = inputs; return y.{k()};}}",
        lambda: f"${{return (function(){{return inputs.{k()};}})();}}",
        lambda: f"${{var inputs2 = {{a:1}}; return inputs2.a + inputs.{k()};}}",
    ]
    return rng.choice(forms)()

NODE = r"""
const cases = JSON.parse(require('fs').readFileSync(process.argv[2]));
const out = [];
for (const c of cases) {
  const reads = new Set(); let all = false;
  const base = {a: {x: 1}, b: 2, "c d": 3, k: "a", z: 5, len: 6};
  const inputs = new Proxy(base, { get(t, p) { if (typeof p === 'string') reads.add(p); return t[p]; }, has(t, p) { if (typeof p === 'string') reads.add(p); return p in t; }, ownKeys(t) { all = true; return Reflect.ownKeys(t); } });
  let ok = true, val = null;
  try {
    for (const js of c.js) { val = (new Function('inputs', 'self', 'runtime', js))(inputs, null, {}); }
  } catch (e) { ok = false; }
  out.push({ok, reads: Array.from(reads), all});
}
console.log(JSON.stringify(out));
"""
def to_js(expr):
    # split into JS fragments like cwl-utils does: $(...) -> return (...); ${...} -> body
    import re
    frags = []
    i = 0
    while i < len(expr):
        if expr.startswith("$(", i):
            depth = 0; j = i + 1
            while j < len(expr):
                if expr[j] == "(": depth += 1
                elif expr[j] == ")":
                    depth -= 1
                    if depth == 0: break
                j += 1
            frags.append("return (" + expr[i + 2:j] + ");"); i = j + 1
        elif expr.startswith("${", i):
            depth = 0; j = i + 1
            while j < len(expr):
                if expr[j] == "{": depth += 1
                elif expr[j] == "}":
                    depth -= 1
                    if depth == 0: break
                j += 1
            frags.append(expr[i + 2:j]); i = j + 1
        else: i += 1
    return frags
rng = random.Random(1); exprs = sorted({gen(rng) for _ in range(600)})
d = tempfile.mkdtemp(dir="/var/tmp/vfprobe")
json.dump([{"js": to_js(e)} for e in exprs], open(f"{d}/c.json", "w")); open(f"{d}/n.js", "w").write(NODE)
res = json.loads(subprocess.run(["node", f"{d}/n.js", f"{d}/c.json"], capture_output=True, text=True, check=True).stdout)
kinds = collections.Counter(); shown = collections.Counter()
for e, r in zip(exprs, res):
    if not r["ok"]: kinds["eval-failed(skipped)"] += 1; continue
    actual = set(KEYS) if r["all"] else set(r["reads"])
    try: deps = resolve_dependencies(e, full_js=True)
    except Exception as ex:
        kinds["analysis-raised:" + type(ex).__name__] += 1
        if shown["raise"] < 2: shown["raise"] += 1; print("RAISED", e, type(ex).__name__)
        continue
    missing = actual - deps
    if missing:
        kinds["missing"] += 1
        if shown["m"] < 8: shown["m"] += 1; print("MISSING", e, "reads", sorted(actual), "deps", sorted(deps))
    else: kinds["ok"] += 1
print(len(exprs), dict(kinds))
import shutil; shutil.rmtree(d)
