import asyncio, os, sys, random, itertools, collections
sys.path.insert(0, "/repo")
from streamflow.main import build_context
from streamflow.core.workflow import Workflow, Token, Port, Status
from streamflow.workflow.step import GatherStep, ScatterStep
from streamflow.workflow.token import ListToken, TerminationToken, IterationTerminationToken
from streamflow.workflow.executor import StreamFlowExecutor
from streamflow.workflow.port import FilterTokenPort, InterWorkflowPort, BoundaryAction
from streamflow.cwl.step import CWLLoopOutputAllStep, CWLLoopOutputLastStep
import logging; logging.getLogger("streamflow").setLevel(logging.CRITICAL)

async def gather_case(ctx, n, perm, prefix, rng):
    wf = Workflow(context=ctx, config={}, name="w")
    pin = wf.create_port(); psize = wf.create_port(); pout = wf.create_port()
    g = wf.create_step(cls=GatherStep, name="/g", size_port=psize); g.add_input_port("x", pin); g.add_output_port("x", pout)
    await wf.save(ctx.database)
    run = asyncio.create_task(g.run())
    events = [("el", i) for i in range(n)] + [("size", None)]
    order = [events[i] for i in perm]
    for kind, i in order:
        if kind == "el":
            t = Token(value=f"v{i}", tag=f"{prefix}.{i}"); await t.save(ctx.database, pin.persistent_id); pin.put(t)
        else:
            t = Token(value=n, tag=prefix, recoverable=True); await t.save(ctx.database, psize.persistent_id); psize.put(t)
        for _ in range(rng.randrange(0, 3)): await asyncio.sleep(0)
    # terminations in random order
    for p in rng.sample([pin, psize], 2): p.put(TerminationToken()); await asyncio.sleep(0)
    await asyncio.wait_for(run, 10)
    lists = [t for t in pout.token_list if isinstance(t, ListToken)]
    ok = len(lists) == 1 and lists[0].tag == prefix and [e.value for e in lists[0].value] == [f"v{i}" for i in range(n)] and isinstance(pout.token_list[-1], TerminationToken)
    return ok, [(t.tag, [e.tag for e in t.value]) for t in lists]

async def loop_case(ctx, counts, cls, rng):
    # counts: per instance number of iterations; tokens tag prefix.k ; IterationTermination tag prefix.count
    wf = Workflow(context=ctx, config={}, name="w"); pin = wf.create_port(); pout = wf.create_port()
    st = wf.create_step(cls=cls, name="/lo"); st.add_input_port("x", pin); st.add_output_port("x", pout)
    await wf.save(ctx.database)
    run = asyncio.create_task(st.run())
    toks = []
    for inst, c in enumerate(counts):
        prefix = f"0.{inst}" if len(counts) > 1 else "0"
        for k in range(c): toks.append(Token(value=f"i{inst}k{k}", tag=f"{prefix}.{k}"))
        toks.append(IterationTerminationToken(tag=f"{prefix}.{c}"))
    rng.shuffle(toks)
    for t in toks:
        if not isinstance(t, IterationTerminationToken): await t.save(ctx.database, pin.persistent_id)
        pin.put(t)
        for _ in range(rng.randrange(0, 3)): await asyncio.sleep(0)
    pin.put(TerminationToken())
    await asyncio.wait_for(run, 10)
    got = {t.tag: ([e.value for e in t.value] if isinstance(t, ListToken) else t.value) for t in pout.token_list if not isinstance(t, TerminationToken)}
    ndata = len([t for t in pout.token_list if not isinstance(t, TerminationToken)])
    exp = {}
    for inst, c in enumerate(counts):
        prefix = f"0.{inst}" if len(counts) > 1 else "0"
        vals = [f"i{inst}k{k}" for k in range(c)]
        exp[prefix] = vals if cls is CWLLoopOutputAllStep else (vals[-1] if vals else None)
    return got == exp and ndata == len(counts), got, exp

async def main():
    ctx = build_context({"database": {"type": "default", "config": {"connection": ":memory:"}}, "path": os.getcwd()})
    rng = random.Random(1); bad = collections.Counter(); n1 = n2 = 0
    for n in range(0, 5):
        for perm in itertools.permutations(range(n + 1)):
            for prefix in ("0", "0.10"):
                ok, got = await gather_case(ctx, n, perm, prefix, rng); n1 += 1
                if not ok:
                    bad["gather"] += 1
                    if bad["gather"] < 4: print("GATHER", n, perm, prefix, got)
    for n in (9, 10, 11, 13, 25):
        for _ in range(30):
            perm = list(range(n + 1)); rng.shuffle(perm)
            ok, got = await gather_case(ctx, n, perm, "0.2", rng); n1 += 1
            if not ok:
                bad["gather-big"] += 1
                if bad["gather-big"] < 3: print("GATHER", n, perm, got)
    for cls in (CWLLoopOutputAllStep, CWLLoopOutputLastStep):
        for trial in range(400):
            counts = [rng.choice([0, 0, 1, 2, 3, 9, 10, 11, 15]) for _ in range(rng.randint(1, 4))]
            ok, got, exp = await loop_case(ctx, counts, cls, rng); n2 += 1
            if not ok:
                bad["loop-" + cls.__name__] += 1
                if bad["loop-" + cls.__name__] < 4: print("LOOP", cls.__name__, counts, "\n got", got, "\n exp", exp)
    print("gather cases", n1, "loop cases", n2, dict(bad))
    await ctx.close()
asyncio.run(main())
