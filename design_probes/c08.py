import asyncio, os, sys, random, json, tempfile, shutil, collections, yaml, argparse
sys.path.insert(0, "/repo"); sys.path.insert(0, "/var/tmp/vfprobe")
import cwl_utils.parser, cwl_utils.parser.utils
from streamflow.main import build_context
from streamflow.config.config import WorkflowConfig
from streamflow.cwl.translator import CWLTranslator
from streamflow.core.workflow import Workflow, Step, Port, Token
from streamflow.persistence.loading_context import DefaultDatabaseLoadingContext, WorkflowBuilder
from c29 import gen
import logging; logging.getLogger("streamflow").setLevel(logging.CRITICAL)

SKIP = {"persistent_id", "_saving", "workflow", "queues", "token_list", "context", "_log_level", "step", "lock"}
def canon(o, seen=None, depth=0):
    seen = seen if seen is not None else {}
    if o is None or isinstance(o, (bool, int, float, str)): return o
    if isinstance(o, (list, tuple)): return [canon(x, seen, depth+1) for x in o]
    if isinstance(o, (set, frozenset)): return sorted(json.dumps(canon(x, seen, depth+1), sort_keys=True, default=str) for x in o)
    if isinstance(o, dict): return {str(k): canon(v, seen, depth+1) for k, v in sorted(o.items(), key=lambda kv: str(kv[0]))}
    if isinstance(o, type): return "type:" + o.__qualname__
    if id(o) in seen: return f"<ref {seen[id(o)]}>"
    seen[id(o)] = type(o).__qualname__ + (":" + getattr(o, "name", "") if isinstance(getattr(o, "name", None), str) else "")
    if isinstance(o, (Workflow,)) and depth > 0: return f"<wf {o.name}>"
    d = {}
    attrs = {}
    if hasattr(o, "__dict__"): attrs.update(vars(o))
    for c in type(o).__mro__:
        for s in getattr(c, "__slots__", ()) or ():
            if isinstance(s, str) and hasattr(o, s): attrs[s] = getattr(o, s)
    for k, v in attrs.items():
        if k in SKIP or callable(v) and not isinstance(v, type): continue
        d[k] = canon(v, seen, depth+1)
    return {"__type__": type(o).__module__ + "." + type(o).__qualname__, **d}

def diff(a, b, path=""):
    if type(a) != type(b): return [(path, a, b)]
    if isinstance(a, dict):
        out = []
        for k in sorted(set(a) | set(b)):
            if k not in a or k not in b: out.append((path + "/" + k, a.get(k, "<missing>"), b.get(k, "<missing>")))
            else: out += diff(a[k], b[k], path + "/" + k)
        return out
    if isinstance(a, list):
        if len(a) != len(b): return [(path, f"len {len(a)}", f"len {len(b)}")]
        out = []
        for i, (x, y) in enumerate(zip(a, b)): out += diff(x, y, f"{path}[{i}]")
        return out
    return [] if a == b else [(path, a, b)]

async def one(i, d):
    rng = random.Random(i); wfdoc, job = gen(rng)
    with open(f"{d}/w.cwl", "w") as f: yaml.safe_dump(wfdoc, f)
    with open(f"{d}/j.yml", "w") as f: yaml.safe_dump(job, f)
    cfg = {"version": "v1.0", "workflows": {"w": {"type": "cwl", "config": {"file": f"{d}/w.cwl", "settings": f"{d}/j.yml"}}}, "path": d, "database": {"type": "default", "config": {"connection": ":memory:"}}}
    ctx = build_context(cfg); wc = WorkflowConfig("w", cfg)
    cwl_def = cwl_utils.parser.load_document_by_uri(f"{d}/w.cwl")
    cwl_in = cwl_utils.parser.utils.load_inputfile_by_uri(version=cwl_def.cwlVersion, path=f"{d}/j.yml", loadingOptions=cwl_def.loadingOptions)
    tr = CWLTranslator(context=ctx, name=f"w{i}", output_directory=d, cwl_definition=cwl_def, cwl_inputs=cwl_in, cwl_inputs_path=f"{d}/j.yml", workflow_config=wc)
    wf = tr.translate()
    before = canon(wf)
    await wf.save(ctx.database)
    after_save = canon(wf)
    lc = DefaultDatabaseLoadingContext(ctx.database)
    wf2 = await Workflow.load(wf.persistent_id, lc)
    loaded = canon(wf2)
    ds = diff(after_save, loaded)
    types = collections.Counter(type(s).__name__ for s in wf.steps.values())
    await ctx.close()
    return ds, types

async def main():
    d = tempfile.mkdtemp(dir="/var/tmp/vfprobe"); alltypes = collections.Counter(); kinds = collections.Counter(); shown = collections.Counter()
    for i in range(int(sys.argv[1])):
        try:
            ds, types = await one(i, d)
        except Exception as e:
            kinds["EXC " + type(e).__name__ + str(e)[:80]] += 1; continue
        alltypes.update(types)
        for (p, a, b) in ds:
            import re
            k = re.sub(r"\[\d+\]", "[]", re.sub(r"/steps/[^/]+", "/steps/*", re.sub(r"/ports/[^/]+", "/ports/*", p)))
            kinds[k] += 1
            if shown[k] < 1: shown[k] += 1; print(k, "|", str(a)[:150], "|", str(b)[:150])
    print("step types", dict(alltypes)); print({k: v for k, v in kinds.items()})
    shutil.rmtree(d)
asyncio.run(main())
