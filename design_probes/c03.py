import asyncio, sys, random, collections
sys.path.insert(0, "/repo")
from streamflow.core.workflow import Port, Token, Workflow, Status
from streamflow.workflow.token import TerminationToken
from streamflow.workflow.port import FilterTokenPort, InterWorkflowPort, BoundaryAction

class W:  # minimal workflow stub
    ports = {}; steps = {}
async def one(seed):
    rng = random.Random(seed)
    kind = rng.choice(["plain", "filter", "inter"])
    wf = W()
    if kind == "plain": port = Port(wf, "p")
    elif kind == "filter":
        allowed = {f"0.{i}" for i in range(6) if rng.random() < 0.5}
        port = FilterTokenPort(wf, "p", filter_function=lambda t: t.tag in allowed)
    else: port = InterWorkflowPort(wf, "p")
    others = [Port(wf, f"o{i}") for i in range(2)]
    log = []           # reference log for port itself
    olog = {o.name: [] for o in others}
    rules = []         # (target, action, remaining tags)
    consumers = {}     # name -> list received
    pending = {}       # name -> task
    nput = 0
    def ref_put(tok):
        if isinstance(tok, TerminationToken): log.append(tok); return
        if kind == "filter":
            if tok.tag in allowed: log.append(tok)
            return
        if kind == "inter":
            matched_self = False
            for r in rules:
                if tok.tag in r[2]: r[2].remove(tok.tag)
                if not r[2]:
                    tgtlog = log if r[0] is port else olog[r[0].name]
                    if BoundaryAction.PROPAGATE in r[1]: tgtlog.append(tok)
                    if BoundaryAction.TERMINATE in r[1]: tgtlog.append("TERM-RECOVERED")
                    if r[0] is port: matched_self = True
            if not matched_self: log.append(tok)
            return
        log.append(tok)
    for step in range(rng.randint(3, 25)):
        op = rng.choice(["put", "put", "put", "get", "get", "new", "term", "rule"])
        if op == "put":
            tok = Token(value=("v", nput), tag=f"0.{rng.randrange(6)}"); nput += 1
            port.put(tok); ref_put(tok)
        elif op == "term" and rng.random() < 0.3:
            tok = TerminationToken(Status.COMPLETED); port.put(tok); ref_put(tok)
        elif op == "new": consumers.setdefault(f"c{len(consumers)}", [])
        elif op == "get" and consumers:
            c = rng.choice(list(consumers))
            if c not in pending or pending[c].done():
                if c in pending: consumers[c].append(pending[c].result())
                pending[c] = asyncio.create_task(port.get(c))
        elif op == "rule" and kind == "inter":
            tgt = rng.choice([port] + others); action = rng.choice([BoundaryAction.PROPAGATE, BoundaryAction.TERMINATE, BoundaryAction.PROPAGATE | BoundaryAction.TERMINATE])
            tags = [f"0.{rng.randrange(6)}" for _ in range(rng.randint(0, 3))]
            # reference for replay at add time
            r = [tgt, action, list(tags)]; rules.append(r)
            for tok in [t for t in list(log) if not isinstance(t, TerminationToken) and t != "TERM-RECOVERED"]:
                pass
            # model replay exactly as statement: tokens already on the port count towards the boundary
            snapshot = [t for t in port.token_list if not isinstance(t, TerminationToken)]
            # we must compute ref BEFORE calling real (token_list is real state; use our own log instead)
            snapshot = [t for t in log if not isinstance(t, TerminationToken) and t != "TERM-RECOVERED"]
            for tok in snapshot:
                if tok.tag in r[2]: r[2].remove(tok.tag)
                if not r[2]:
                    tgtlog = log if tgt is port else olog[tgt.name]
                    if BoundaryAction.PROPAGATE in action: tgtlog.append(tok)
                    if BoundaryAction.TERMINATE in action: tgtlog.append("TERM-RECOVERED")
            port.add_inter_port(tgt, list(tags), action)
        await asyncio.sleep(0)
    # drain: every consumer reads everything
    await asyncio.sleep(0)
    def norm(seq): return [("TERM", getattr(t.value, "name", None)) if isinstance(t, TerminationToken) else (t if isinstance(t, str) else (t.tag, t.value)) for t in seq]
    want = [("TERM", "RECOVERED") if x == "TERM-RECOVERED" else x for x in norm(log)]
    got_list = norm(port.token_list)
    errs = []
    if got_list != want: errs.append(("token_list", kind, got_list[:8], want[:8]))
    for o in others:
        w = [("TERM", "RECOVERED") if x == "TERM-RECOVERED" else x for x in norm(olog[o.name])]
        if norm(o.token_list) != w: errs.append(("other-port", kind, norm(o.token_list)[:6], w[:6]))
    for c, recv in consumers.items():
        if c in pending and pending[c].done(): recv.append(pending[c].result()); del pending[c]
        # read the rest
        while True:
            if c in pending: 
                t = pending.pop(c)
                try: recv.append(await asyncio.wait_for(t, 0.01))
                except asyncio.TimeoutError: t.cancel(); break
            else:
                if len(recv) >= len(port.token_list): break
                pending[c] = asyncio.create_task(port.get(c))
        if norm(recv) != got_list[:len(recv)] or len(recv) != len(got_list): errs.append(("consumer", kind, c, len(recv), len(got_list)))
    return errs
async def main():
    kinds = collections.Counter(); shown = collections.Counter()
    for s in range(int(sys.argv[1])):
        for e in await one(s):
            k = e[0] + ":" + e[1]; kinds[k] += 1
            if shown[k] < 2: shown[k] += 1; print(s, e)
    print(dict(kinds))
asyncio.run(main())
