import random, sys, collections, os
sys.path.insert(0, "/repo")
from streamflow.recovery.utils import DirectedGraph, DirectedAcyclicGraph
from streamflow.core.scheduling import Hardware, Storage

class Ref:
    def __init__(self): self.nodes=set(); self.edges=set()
    def add(self,u,v=None):
        self.nodes.add(u)
        if v is not None: self.nodes.add(v); self.edges.add((u,v))
    def succ(self,n): return {v for (u,v) in self.edges if u==n}
    def pred(self,n): return {u for (u,v) in self.edges if v==n}
    def remove(self, nodes, prune=True):
        removed=[]; work=[n for n in nodes]
        # statement: remove exactly them plus (when pruning) every ancestor left with no remaining successors
        to_remove=set(n for n in nodes if n in self.nodes)
        changed=True
        while prune and changed:
            changed=False
            for n in list(self.nodes - to_remove):
                s=self.succ(n)
                if s and s <= to_remove and any(True for _ in s):
                    # n had successors and all of them are being removed -> dead end
                    to_remove.add(n); changed=True
        self.nodes-=to_remove; self.edges={(u,v) for (u,v) in self.edges if u not in to_remove and v not in to_remove}
        return to_remove
    def replace(self,o,n):
        if o not in self.nodes: return
        if n in self.nodes: raise ValueError
        self.nodes.discard(o); self.nodes.add(n)
        self.edges={(n if u==o else u, n if v==o else v) for (u,v) in self.edges}
    def promote(self,node):
        if node not in self.nodes: return set()
        preds=self.pred(node)
        self.edges={(u,v) for (u,v) in self.edges if v!=node}
        dead=[p for p in preds if not self.succ(p)]
        return self.remove(dead) if dead else set()

def snapshot(g):
    nodes=g.get_nodes(); edges={(u,v) for u in nodes for v in g.successors(u)}
    mirror={(u,v) for v in nodes for u in g.predecessors(v)}
    return nodes, edges, mirror

rng=random.Random(3); bad=collections.Counter(); n=0
for trial in range(20000):
    dag = rng.random()<0.7
    g=(DirectedAcyclicGraph if dag else DirectedGraph)("g"); r=Ref()
    N=rng.randint(1,9)
    for _ in range(rng.randint(0,14)):
        u=rng.randrange(N); v=rng.randrange(N)
        if dag and u>=v: u,v=min(u,v),max(u,v)
        if u==v and dag: g.add(u); r.add(u)
        else: g.add(u,v); r.add(u,v)
    for _ in range(rng.randint(1,5)):
        op=rng.choice(["rm","rm_np","rep","prom"] if dag else ["rm","rm_np","rep"])
        if op in("rm","rm_np"):
            ns=[rng.randrange(N+1) for _ in range(rng.randint(1,3))]
            got=set(g.remove_nodes(list(ns), prune_dead_end=(op=="rm"))); exp=r.remove(ns, prune=(op=="rm"))
            if got!=exp: bad[op+"-ret"]+=1
        elif op=="rep":
            o=rng.randrange(N+1); nn=rng.randrange(N, N+4)
            try: g.replace(o,nn); ge=None
            except ValueError: ge="VE"
            try: r.replace(o,nn); re_=None
            except ValueError: re_="VE"
            if ge!=re_: bad["rep-exc"]+=1
        else:
            x=rng.randrange(N+1)
            got=set(g.promote_to_source(x)); exp=r.promote(x)
            if got!=exp: bad["prom-ret"]+=1
        nodes,edges,mirror=snapshot(g); n+=1
        if edges!=mirror: bad["mirror"]+=1
        if nodes!=r.nodes or edges!=r.edges:
            bad[op+"-state"]+=1
            if bad[op+"-state"]<=2: print(op, dag, sorted(nodes), sorted(r.nodes), sorted(edges ^ r.edges))
            break
print("C20 ops", n, dict(bad))

# C14
def totals(h):
    d=collections.defaultdict(float)
    for s in h.storage.values(): d[s.mount_point]+=s.size
    return dict(d)
def rnd_hw(rng, mps, aliasing):
    st={}
    for i in range(rng.randint(0,4)):
        mp=rng.choice(mps); key=(f"k{i}" if aliasing else mp)
        if key in st: continue
        st[key]=Storage(mp, rng.choice([0.0, 0.5, 1.0, 3.25, 100.0, rng.random()*1e4]), paths={f"{mp}/p{i}"})
    return Hardware(rng.choice([0.0,0.5,1.0,2.0,8.0]), rng.choice([0.0,1.5,1024.0,rng.random()*1e5]), st or None)
def close(a,b): return abs(a-b) <= 1e-9*max(1.0,abs(a),abs(b))
bad=collections.Counter(); m=0
for trial in range(100000):
    mps=rng.sample(["/","/data","/scratch"], rng.randint(1,3))
    a=rnd_hw(rng,mps,rng.random()<0.5); r=rnd_hw(rng,mps,rng.random()<0.5)
    m+=1
    ta=totals(a); tr=totals(r)
    try:
        x=(a+r)-r
        tx=totals(x)
        for mp in set(ta)|set(tr):
            if not close(tx.get(mp,0.0), ta.get(mp,0.0)): bad["addsub-storage"]+=1; break
        if not(close(x.cores,a.cores) and close(x.memory,a.memory)): bad["addsub-scalar"]+=1
    except Exception as e:
        bad["addsub-exc-"+type(e).__name__]+=1
    nrm=a.normalized()
    if not nrm.is_normalized(): bad["norm-notnorm"]+=1
    if totals(nrm)!=ta: bad["norm-totals"]+=1
    if totals(nrm.normalized())!=totals(nrm) or set(nrm.normalized().storage)!=set(nrm.storage): bad["norm-idem"]+=1
    # satisfies
    exp_raise = bool(set(tr)-set(ta)) and a.cores>=r.cores and a.memory>=r.memory
    exp = a.cores>=r.cores and a.memory>=r.memory and all(ta.get(mp,0.0)>=v for mp,v in tr.items())
    try:
        got=a.satisfies(r)
        if exp_raise: bad["sat-noraise"]+=1
        elif got!=exp: bad["sat-value"]+=1
    except Exception as e:
        if not exp_raise: bad["sat-raise-"+type(e).__name__]+=1
print("C14 cases", m, dict(bad))
