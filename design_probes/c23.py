import asyncio, io, os, sys, tarfile, tempfile, shutil, signal, hashlib, random, collections, subprocess
sys.path.insert(0, "/repo")
from streamflow.deployment import aiotarstream
from streamflow.deployment.stream import BaseStreamWrapper
from streamflow.deployment.connector.base import extract_tar_stream

class Chunk(BaseStreamWrapper):
    def __init__(self, data, policy, rng):
        super().__init__(io.BytesIO(data)); self.policy = policy; self.rng = rng
    async def _close(self): pass
    async def read(self, size=None):
        if self.policy == "whole": n = size if size is not None else -1
        elif self.policy == "short": n = max(1, (size or 65536) - self.rng.randrange(0, max(1, (size or 65536))))
        else: n = min(size, self.policy) if size is not None else self.policy
        return self.stream.read(n)
    async def write(self, data): raise NotImplementedError
class Alarm(Exception): pass
def _h(sig, frm): raise Alarm()
signal.signal(signal.SIGALRM, _h)

def digest(root):
    out = {}
    for r, ds, fs in os.walk(root):
        rel = os.path.relpath(r, root)
        for d in ds: out[os.path.join(rel, d) + "/"] = "dir"
        for f in fs:
            p = os.path.join(r, f)
            out[os.path.join(rel, f)] = ("link", os.readlink(p)) if os.path.islink(p) else (hashlib.sha1(open(p, "rb").read()).hexdigest(), os.stat(p).st_mode & 0o111)
    return out
def mktree(rng, base):
    src = os.path.join(base, "src"); os.makedirs(src)
    for i in range(rng.randint(1, 5)):
        nm = rng.choice(["a.bin", "b b.txt", "é.dat", "x" * 120, "-lead", "sub/in.txt", "sub/deep/z"]) + str(i)
        p = os.path.join(src, nm); os.makedirs(os.path.dirname(p), exist_ok=True)
        open(p, "wb").write(os.urandom(rng.choice([0, 1, 511, 512, 513, 3000, 70000])))
        if rng.random() < 0.3: os.chmod(p, 0o755)
    if rng.random() < 0.4: os.makedirs(os.path.join(src, "emptydir"), exist_ok=True)
    return src
def boundaries(data):
    # header/data/padding boundaries of each member via tarfile
    b = set(); tf = tarfile.open(fileobj=io.BytesIO(data))
    for m in tf.getmembers():
        b |= {("hdr-start", m.offset), ("hdr-mid", m.offset + 200), ("data-start", m.offset_data)}
        if m.isreg() and m.size:
            b |= {("data-mid", m.offset_data + m.size // 2), ("data-end", m.offset_data + m.size)}
            pad = (512 - m.size % 512) % 512
            if pad: b.add(("pad-mid", m.offset_data + m.size + pad // 2))
    b.add(("eof-blocks-mid", len(data) - 600))
    return sorted(b, key=lambda x: x[1])
async def extract(data, policy, rng, src, dst):
    async with aiotarstream.open(stream=Chunk(data, policy, rng), mode="r", copybufsize=64) as tar:
        await extract_tar_stream(tar, src, dst, 64)
def run(data, policy, rng, src, dst):
    signal.setitimer(signal.ITIMER_REAL, 3)
    try:
        asyncio.run(extract(data, policy, rng, src, dst)); return "ok"
    except Alarm: return "HANG"
    except BaseException as e: return "raise:" + type(e).__name__
    finally: signal.setitimer(signal.ITIMER_REAL, 0)

rng = random.Random(4); kinds = collections.Counter(); shown = collections.Counter(); n = 0
base0 = tempfile.mkdtemp(dir="/var/tmp/vfprobe")
for t in range(int(sys.argv[1])):
    base = os.path.join(base0, f"t{t}"); os.makedirs(base); src = mktree(rng, base); want = digest(src)
    fmt = rng.choice(["gnu-tarfile", "pax-tarfile", "ustar-tarfile", "gnutar"])
    if fmt == "gnutar":
        data = subprocess.run(["tar", "chf", "-", "-C", base, "src"], capture_output=True).stdout
    else:
        buf = io.BytesIO()
        try:
            with tarfile.open(fileobj=buf, mode="w", format={"gnu-tarfile": tarfile.GNU_FORMAT, "pax-tarfile": tarfile.PAX_FORMAT, "ustar-tarfile": tarfile.USTAR_FORMAT}[fmt]) as tf: tf.add(src, arcname="src")
        except ValueError: continue
        data = buf.getvalue()
    for policy in ["whole", 1, 7, 511, 512, 513, 4096, "short"]:
        dst = os.path.join(base, f"dst-{policy}"); r = run(data, policy, rng, src, dst); n += 1
        got = digest(dst) if os.path.isdir(dst) else {}
        if r != "ok" or got != want:
            k = f"chunk[{policy}]:{r}:{'same' if got == want else 'DIFF'}"; kinds[k] += 1
            if shown[k] < 1: shown[k] += 1; print(k, fmt, "missing", sorted(set(want) - set(got))[:3])
        shutil.rmtree(dst, ignore_errors=True)
    for (cls, cut) in boundaries(data):
        if cut <= 0 or cut >= len(data): continue
        dst = os.path.join(base, "dst-cut"); r = run(data[:cut], "whole", rng, src, dst); n += 1
        got = digest(dst) if os.path.isdir(dst) else {}
        verdict = "exact" if got == want else ("raised" if r.startswith("raise") else ("HANG" if r == "HANG" else "SILENT-PARTIAL"))
        kinds[f"trunc[{cls}]:{verdict}"] += 1
        shutil.rmtree(dst, ignore_errors=True)
    shutil.rmtree(base)
print("cases", n); [print(" ", k, v) for k, v in sorted(kinds.items())]
shutil.rmtree(base0)
