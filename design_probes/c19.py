import asyncio, os, sys, posixpath, tempfile, time, json, random, collections
sys.path.insert(0, "/repo")
os.environ["TMPDIR"] = "/var/tmp/vfprobe/tmp"; os.makedirs(os.environ["TMPDIR"], exist_ok=True)
tempfile.tempdir = os.environ["TMPDIR"]
from streamflow.core.workflow import Token, Status
from streamflow.main import build_context
from streamflow.workflow.executor import StreamFlowExecutor
from streamflow.workflow.step import GatherStep, ScatterStep
from streamflow.persistence.sqlite import SqliteDatabase
import streamflow.persistence as P
from tests.utils.deployment import get_deployment_config, get_location
from tests.utils.utils import inject_tokens
from tests.utils.workflow import RecoveryTranslator, create_workflow
from tests.test_recovery import _get_token_value, _assert_token_result
import logging; logging.getLogger("streamflow").setLevel(logging.CRITICAL)

class S: rng = random.Random(0)
class JitterDB(SqliteDatabase): pass
def _wrap(name):
    orig = getattr(SqliteDatabase, name)
    async def w(self, *a, **k):
        for _ in range(S.rng.randrange(0, 4)): await asyncio.sleep(0)
        r = await orig(self, *a, **k)
        for _ in range(S.rng.randrange(0, 4)): await asyncio.sleep(0)
        return r
    return w
for n in [m for m in dir(SqliteDatabase) if m.startswith(("add_", "get_", "update_"))]:
    if asyncio.iscoroutinefunction(getattr(SqliteDatabase, n)): setattr(JitterDB, n, _wrap(n))
P.database_classes["jitter"] = JitterDB

async def main(failing, ftype, n, seed, phase):
    S.rng = random.Random(seed)
    ctx = build_context({"failureManager": {"type": "default", "config": {"max_retries": 30, "retry_delay": 0}},
                         "database": {"type": "jitter", "config": {"connection": ":memory:"}}, "path": os.getcwd()})
    dt = RecoveryTranslator.LOCAL_FS_VOLATILE
    cfg = await get_deployment_config(ctx, dt); await ctx.deployment_manager.deploy(cfg)
    wf = next(iter(await create_workflow(ctx, num_port=0)))
    tr = RecoveryTranslator(wf); tr.deployment_configs = {cfg.name: cfg}
    loc = await get_location(ctx, dt)
    inn, outn = "in", "out"
    inj = tr.get_base_injector_step([dt], inn, "/in", wf)
    val = await _get_token_value(ctx, loc, "list", **{"list_length": n})
    await inject_tokens([Token(val, recoverable=True)], inj.get_input_port(inn), ctx, save_input_token=False)
    a = tr.get_execute_pipeline(command=f"lambda x : ('copy', 'list', x['{inn}'].value)", deployment_names=[dt],
        input_ports={inn: inj.get_output_port(inn)}, outputs={outn: "list"}, step_name="/a/x", workflow=wf)
    sc = wf.create_step(cls=ScatterStep, name="/b/x-scatter"); sc.add_input_port(outn, a.get_output_port(outn)); sc.add_output_port(outn, wf.create_port())
    b = tr.get_execute_pipeline(command=f"lambda x : ('copy', 'list', x['{outn}'].value)", deployment_names=[dt],
        input_ports={outn: sc.get_output_port(outn)}, outputs={outn: "file"}, step_name="/b/x",
        failure_step=phase, failure_tags={t: 1 for t in failing}, failure_type=ftype, workflow=wf)
    g = wf.create_step(cls=GatherStep, name="/b/x-gather", size_port=sc.get_size_port()); g.add_input_port(outn, b.get_output_port(outn)); g.add_output_port(outn, wf.create_port())
    c = tr.get_execute_pipeline(command=f"lambda x : ('copy', 'list', x['{outn}'].value)", deployment_names=[dt],
        input_ports=g.get_output_ports(), outputs={outn: "list"}, step_name="/c/x", workflow=wf)
    await wf.save(ctx.database)
    t0 = time.time()
    try:
        await asyncio.wait_for(StreamFlowExecutor(wf).run(), 90)
        res = c.get_output_port(outn).token_list
        await _assert_token_result(val, res[0], ctx, loc)
        ok = "OK"
    except BaseException as e:
        ok = f"FAIL {type(e).__name__}: {str(e)[:100]}"
    print(phase, ftype, failing, "seed", seed, ok, round(time.time()-t0, 2), flush=True)
    await ctx.deployment_manager.undeploy_all(); await ctx.close()
asyncio.run(main(sys.argv[3].split(","), sys.argv[1], int(sys.argv[2]), int(sys.argv[4]), sys.argv[5]))
