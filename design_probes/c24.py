import asyncio, os, sys, tempfile, shutil, collections, hashlib, random
sys.path.insert(0, "/repo")
from streamflow.main import build_context
from streamflow.core.deployment import DeploymentConfig, ExecutionLocation
from streamflow.core.scheduling import AvailableLocation
from streamflow.deployment.connector.base import BaseConnector
from streamflow.deployment.connector import connector_classes
from streamflow.data.remotepath import StreamFlowPath
import logging; logging.getLogger("streamflow").setLevel(logging.CRITICAL)

class ShellRemote(BaseConnector):
    def __init__(self, deployment_name, config_dir, transferBufferSize=65536): super().__init__(deployment_name, config_dir, transferBufferSize)
    async def deploy(self, external): pass
    async def get_available_locations(self, service=None):
        return {"r1": AvailableLocation(name="r1", deployment=self.deployment_name, hostname="localhost", local=False, slots=8)}
    @classmethod
    def get_schema(cls): return "{}"
    async def get_stream_reader(self, command, location):
        import base64
        from streamflow.deployment.connector.base import SubprocessStreamReaderWrapperContextManager
        enc = base64.b64encode(" ".join(command).encode()).decode()
        return SubprocessStreamReaderWrapperContextManager(coro=asyncio.create_subprocess_exec("sh", "-c", f"eval $(echo {enc} | base64 -d)", stdin=asyncio.subprocess.DEVNULL, stdout=asyncio.subprocess.PIPE, stderr=asyncio.subprocess.DEVNULL))
    async def get_stream_writer(self, command, location):
        import base64
        from streamflow.deployment.connector.base import SubprocessStreamWriterWrapperContextManager
        enc = base64.b64encode(" ".join(command).encode()).decode()
        return SubprocessStreamWriterWrapperContextManager(coro=asyncio.create_subprocess_exec("sh", "-c", f"eval $(echo {enc} | base64 -d)", stdin=asyncio.subprocess.PIPE, stdout=asyncio.subprocess.DEVNULL, stderr=asyncio.subprocess.DEVNULL))
connector_classes["vf-shell"] = ShellRemote

NAMES = {"plain": "plain", "space": "a b", "squote": "it's", "dquote": 'q"q', "dollar": "a$HOME", "btick": "a`id`", "star": "st*r", "qmark": "q?m", "brack": "b[ab]", "dash": "-rf", "uni": "üñí✓", "semi": "a;b", "amp": "a&b", "bslash": "a\\b", "tilde": "~t", "hash": "#h", "lt": "a<b"}
def tree(root):
    out = {}
    for r, ds, fs in os.walk(root):
        rel = os.path.relpath(r, root)
        for d in ds:
            p = os.path.join(r, d); out[os.path.normpath(os.path.join(rel, d))] = ("link", os.readlink(p)) if os.path.islink(p) else ("dir", oct(os.stat(p).st_mode & 0o777))
        for f in fs:
            p = os.path.join(r, f)
            out[os.path.normpath(os.path.join(rel, f))] = ("link", os.readlink(p).replace(root, "<R>")) if os.path.islink(p) else ("file", hashlib.sha1(open(p, "rb").read()).hexdigest(), oct(os.stat(p).st_mode & 0o777), os.stat(p).st_nlink)
    return out
async def do(op, P, name, root):
    p = P(name); 
    async def res():
        if op == "mkdir": return await p.mkdir(mode=0o755)
        if op == "mkdir_p": return await (p / "x" / "y").mkdir(mode=0o750, parents=True, exist_ok=True)
        if op == "write": return await p.write_text("hello\nworld")
        if op == "write_nl": return await p.write_text("  lead and trail \n\n")
        if op == "read": return await p.read_text()
        if op == "exists": return await p.exists()
        if op == "is_file": return await p.is_file()
        if op == "is_dir": return await p.is_dir()
        if op == "size": return await p.size()
        if op == "checksum": return await p.checksum()
        if op == "chmod": return await p.chmod(0o700)
        if op == "symlink": return await P(name + ".lnk").symlink_to(str(p))
        if op == "is_symlink": return await P(name + ".lnk").is_symlink()
        if op == "hardlink": return await P(name + ".hl").hardlink_to(str(p))
        if op == "resolve": r = await P(name + ".lnk").resolve(); return str(r).replace(root, "<R>") if r is not None else None
        if op == "glob": return sorted(str(x).replace(root, "<R>") for x in [y async for y in P("").glob(name[:2] + "*")])
        if op == "walk": return sorted((str(a).replace(root, "<R>"), tuple(sorted(b)), tuple(sorted(c))) for a, b, c in [w async for w in P("").walk()])
        if op == "rmtree": return await p.rmtree()
    try: return ("ok", await asyncio.wait_for(res(), 4))
    except asyncio.TimeoutError: return ("HANG",)
    except BaseException as e: return ("exc", type(e).__name__)
async def main():
    base = tempfile.mkdtemp(dir="/var/tmp/vfprobe")
    ctx = build_context({"database": {"type": "default", "config": {"connection": ":memory:"}}, "path": base})
    await ctx.deployment_manager.deploy(DeploymentConfig(name="rem", type="vf-shell", config={}, external=False, lazy=False, workdir=base))
    await ctx.deployment_manager.deploy(DeploymentConfig(name="__LOCAL__", type="local", config={}, external=True, lazy=False, workdir=base))
    rloc = next(iter((await ctx.deployment_manager.get_connector("rem").get_available_locations()).values())).location
    lloc = next(iter((await ctx.deployment_manager.get_connector("__LOCAL__").get_available_locations()).values())).location
    seqs = [("file", ["write", "exists", "is_file", "is_dir", "read", "size", "checksum", "chmod", "symlink", "is_symlink", "resolve", "hardlink", "glob", "walk", "rmtree", "exists"]),
            ("dir", ["mkdir", "is_dir", "mkdir_p", "walk", "size", "rmtree", "exists"]), ("nl", ["write_nl", "read", "size"])]
    mism = collections.defaultdict(list); nops = 0
    for cls, name in NAMES.items():
        for sname, seq in seqs:
            rl = os.path.join(base, "L"); rr = os.path.join(base, "R")
            for d in (rl, rr): shutil.rmtree(d, ignore_errors=True); os.makedirs(d)
            PL = lambda n, rl=rl: StreamFlowPath(os.path.join(rl, n) if n else rl, context=ctx, location=lloc)
            PR = lambda n, rr=rr: StreamFlowPath(os.path.join(rr, n) if n else rr, context=ctx, location=rloc)
            for op in seq:
                a = await do(op, PL, name, rl); b = await do(op, PR, name, rr); nops += 1
                if b == ("HANG",):
                    await ctx.deployment_manager.get_connector("rem").undeploy(False)
                ta, tb = tree(rl), tree(rr)
                if a != b or ta != tb:
                    mism[op].append((cls, "ret" if a != b else "tree", a if a != b else None, b if a != b else None))
                    break  # stop the sequence at first divergence (states differ afterwards)
    for op, l in sorted(mism.items()):
        print(op, len(l), sorted({c for c, *_ in l}))
        ex = l[0]; print("    e.g.", ex[0], ex[1], str(ex[2])[:100], "|", str(ex[3])[:100])
    print("ops", nops)
    await ctx.deployment_manager.undeploy_all(); await ctx.close(); shutil.rmtree(base)
asyncio.run(main())
