import asyncio, os, sys, random, collections, tempfile, shutil, posixpath, json, hashlib
sys.path.insert(0, "/repo")
from streamflow.main import build_context
from streamflow.core.config import BindingConfig
from streamflow.core.deployment import DeploymentConfig, Target, LocalTarget
from streamflow.core.workflow import Workflow, Token, Port, Status, Command, CommandOutput, Job
from streamflow.workflow.step import ScatterStep, GatherStep, Transformer, DeployStep, ScheduleStep, ExecuteStep
from streamflow.workflow.token import ListToken, TerminationToken
from streamflow.workflow.executor import StreamFlowExecutor
from streamflow.persistence.sqlite import SqliteDatabase
import streamflow.persistence as P
import logging; logging.getLogger("streamflow").setLevel(logging.CRITICAL)

class Sched:  # perturbation source
    rng = random.Random(0); K = 3
    @classmethod
    async def jitter(cls, k=None):
        for _ in range(cls.rng.randrange(0, (k or cls.K) + 1)): await asyncio.sleep(0)
class JitterDB(SqliteDatabase): pass
def _wrap(name):
    orig = getattr(SqliteDatabase, name)
    async def w(self, *a, **k):
        await Sched.jitter(); r = await orig(self, *a, **k); await Sched.jitter(); return r
    return w
for n in [m for m in dir(SqliteDatabase) if m.startswith(("add_", "get_", "update_"))]:
    if asyncio.iscoroutinefunction(getattr(SqliteDatabase, n)): setattr(JitterDB, n, _wrap(n))
P.database_classes["jitter"] = JitterDB
class ShufSet(set):
    def __iter__(self):
        l = list(set.__iter__(self)); Sched.rng.shuffle(l); return iter(l)
_orig_wait = asyncio.wait
async def _wait(fs, *, timeout=None, return_when=asyncio.ALL_COMPLETED):
    d, p = await _orig_wait(fs, timeout=timeout, return_when=return_when); return ShufSet(d), p
asyncio.wait = _wait

FUNCS = {"inc": lambda *a: (a[0] + 1) if isinstance(a[0], int) else a[0], "pair": lambda *a: list(a), "sum2": lambda a, b: [a, b], "rep": lambda x: [x, x, x] if not isinstance(x, list) else x,
         "idx": lambda x: list(range(x % 5)) if isinstance(x, int) else [x]}
def to_token(v, tag):
    if isinstance(v, list): return ListToken(value=[to_token(e, tag) for e in v], tag=tag)
    return Token(value=v, tag=tag)
def from_token(t):
    return [from_token(e) for e in t.value] if isinstance(t, ListToken) else t.value

class Fn(Transformer):
    fname = "inc"
    async def transform(self, inputs):
        await Sched.jitter(5)
        vals = [from_token(inputs[k]) for k in sorted(inputs)]
        tag = next(iter(inputs.values())).tag
        return {next(iter(self.output_ports)): to_token(FUNCS[self.fname](*vals), tag)}
def fn_cls(name): return type("Fn_" + name, (Fn,), {"fname": name})
class Cmd(Command):
    def __init__(self, step, fname): super().__init__(step); self.fname = fname
    async def execute(self, job):
        await Sched.jitter(12)
        vals = [from_token(job.inputs[k]) for k in sorted(job.inputs)]
        return CommandOutput(FUNCS[self.fname](*vals), Status.COMPLETED)
from streamflow.workflow.step import DefaultCommandOutputProcessor
class OutProc(DefaultCommandOutputProcessor):
    async def process(self, job, command_output, connector=None, recoverable=False):
        from streamflow.core.utils import get_tag
        t = to_token((await command_output).value, get_tag(job.inputs.values())); 
        return t

def gen_program(rng):
    """returns list of ops; streams are dict tag->value (denotation)"""
    ops = []; streams = {}; shapes = {}
    def new(name, den, shape): streams[name] = den; shapes[name] = shape; return name
    nsrc = rng.randint(1, 2)
    for i in range(nsrc):
        v = rng.choice([3, 7, 12, [1, 2, 3], list(range(11)), [], [[1, 2], [3]], 0])
        new(f"src{i}", {"0": v}, ("root",)); ops.append(("src", f"src{i}", v))
    cnt = [0]
    def fresh(): cnt[0] += 1; return f"p{cnt[0]}"
    scatter_stack = {}  # stream -> (size stream info)
    for _ in range(rng.randint(2, 9)):
        x = rng.choice(list(streams))
        kind = rng.choice(["map", "map", "exec", "zip", "scatter", "gather"])
        if kind in ("map", "exec"):
            f = rng.choice(["inc", "rep", "idx", "pair"]); y = fresh()
            new(y, {t: FUNCS[f](v) for t, v in streams[x].items()}, shapes[x]); ops.append((kind, x, y, f))
        elif kind == "zip":
            cands = [s for s in streams if shapes[s] == shapes[x] and s != x]
            if not cands: continue
            z = rng.choice(cands); y = fresh()
            new(y, {t: FUNCS["sum2"](streams[x][t], streams[z][t]) for t in streams[x]}, shapes[x]); ops.append(("zip", x, z, y))
        elif kind == "scatter":
            if not streams[x] or not all(isinstance(v, list) for v in streams[x].values()) or len(shapes[x]) > 2: continue
            y = fresh(); den = {f"{t}.{i}": e for t, v in streams[x].items() for i, e in enumerate(v)}
            new(y, den, shapes[x] + (y,)); ops.append(("scatter", x, y))
        elif kind == "gather":
            if len(shapes[x]) < 2: continue
            sc = shapes[x][-1]; src = next(o[1] for o in ops if o[0] == "scatter" and o[2] == sc)
            y = fresh(); den = {}
            for t, v in streams[src].items():
                den[t] = [streams[x][f"{t}.{i}"] for i in range(len(v))]
            new(y, den, shapes[x][:-1]); ops.append(("gather", x, y, sc))
    # outputs = streams not consumed by anyone (so all steps reach an output)
    consumed = set()
    for o in ops:
        if o[0] in ("map", "exec", "scatter"): consumed.add(o[1])
        elif o[0] == "zip": consumed |= {o[1], o[2]}
        elif o[0] == "gather": consumed.add(o[1])
    outs = [s for s in streams if s not in consumed]
    return ops, streams, outs

async def run_program(ops, outs, seed, root):
    Sched.rng = random.Random(seed)
    ctx = build_context({"database": {"type": "jitter", "config": {"connection": ":memory:"}}, "path": os.getcwd()})
    wf = Workflow(context=ctx, config={}, name="w"); ports = {}; sizeports = {}
    dc = DeploymentConfig(name="__LOCAL__", type="local", config={}, external=True, lazy=False, workdir=root)
    dstep = None
    inject = []
    for o in ops:
        if o[0] == "src":
            ports[o[1]] = wf.create_port(); inject.append((o[1], o[2]))
        elif o[0] == "map":
            _, x, y, f = o; st = wf.create_step(cls=fn_cls(f), name=f"/{y}"); st.add_input_port("a", ports[x]); ports[y] = wf.create_port(); st.add_output_port("o", ports[y])
        elif o[0] == "zip":
            _, x, z, y = o; st = wf.create_step(cls=fn_cls("sum2"), name=f"/{y}"); st.add_input_port("a", ports[x]); st.add_input_port("b", ports[z]); ports[y] = wf.create_port(); st.add_output_port("o", ports[y])
        elif o[0] == "scatter":
            _, x, y = o; st = wf.create_step(cls=ScatterStep, name=f"/{y}-scatter"); st.add_input_port("a", ports[x]); ports[y] = wf.create_port(); st.add_output_port("a", ports[y]); sizeports[y] = st.get_size_port()
        elif o[0] == "gather":
            _, x, y, sc = o; st = wf.create_step(cls=GatherStep, name=f"/{y}-gather", size_port=sizeports[sc]); st.add_input_port("a", ports[x]); ports[y] = wf.create_port(); st.add_output_port("a", ports[y])
        elif o[0] == "exec":
            _, x, y, f = o
            if dstep is None: dstep = wf.create_step(cls=DeployStep, name="/__deploy__/local", deployment_config=dc)
            ss = wf.create_step(cls=ScheduleStep, name=f"/{y}/__schedule__", job_prefix=f"/{y}", connector_ports={dc.name: dstep.get_output_port()}, binding_config=BindingConfig(targets=[Target(deployment=dc, workdir=root)]))
            ss.add_input_port("a", ports[x])
            ex = wf.create_step(cls=ExecuteStep, name=f"/{y}", job_port=ss.get_output_port()); ex.command = Cmd(ex, f); ex.add_input_port("a", ports[x])
            ports[y] = wf.create_port(); ex.add_output_port("o", ports[y], OutProc("o", wf))
    for s in outs: wf.output_ports[s] = ports[s].name
    await wf.save(ctx.database)
    for name, v in inject:
        t = to_token(v, "0"); await t.save(ctx.database, ports[name].persistent_id); ports[name].put(t); ports[name].put(TerminationToken())
    ex = StreamFlowExecutor(wf); res = None; err = None
    try:
        await asyncio.wait_for(ex.run(), 30)
    except asyncio.TimeoutError: err = "TIMEOUT"
    except Exception as e: err = f"RAISED {type(e).__name__}: {e}"
    got = {s: {t.tag: from_token(t) for t in ports[s].token_list if not isinstance(t, TerminationToken)} for s in outs}
    sts = {s.name: s.status.name for s in wf.steps.values()}
    await ctx.deployment_manager.undeploy_all(); await ctx.database.close()
    return err, got, sts

async def main():
    root = tempfile.mkdtemp(dir="/var/tmp/vfprobe"); rng = random.Random(int(sys.argv[2]) if len(sys.argv) > 2 else 1)
    kinds = collections.Counter(); shown = collections.Counter(); nprog = 0; nruns = 0; opkinds = collections.Counter()
    for p in range(int(sys.argv[1])):
        ops, den, outs = gen_program(rng)
        if not outs: continue
        nprog += 1
        for o in ops: opkinds[o[0]] += 1
        results = []
        for seed in range(5):
            err, got, sts = await run_program(ops, outs, seed * 1000 + p, root); nruns += 1
            exp = {s: den[s] for s in outs}
            k = None
            if err: k = "ERR:" + err.split(":")[0]
            elif got != exp: k = "WRONG-OUTPUT"
            elif any(v not in ("COMPLETED", "SKIPPED") for v in sts.values()): k = "BAD-STATUS"
            if k:
                kinds[k] += 1
                if shown[k] < 3:
                    shown[k] += 1; print(k, err, "\n ops", ops, "\n got", got, "\n exp", exp, "\n sts", {a: b for a, b in sts.items() if b != "COMPLETED"})
                break
    print("programs", nprog, "runs", nruns, dict(opkinds), dict(kinds)); shutil.rmtree(root)
asyncio.run(main())
