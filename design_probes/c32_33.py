import sys, random, itertools, collections, copy, posixpath, urllib.parse, functools
sys.path.insert(0, "/repo")
from streamflow.core.utils import compare_tags, get_tag, get_job_step_name, get_job_tag
from streamflow.core.workflow import Token
from streamflow.cwl.utils import remap_path, remap_token_value

# C33 exhaustive
comps = range(13)
tags = ["0"] + [f"0.{a}" for a in comps] + [f"0.{a}.{b}" for a in comps for b in comps]
key = lambda t: (len(t.split(".")), tuple(int(x) for x in t.split(".")))
bad = collections.Counter(); n = 0
for a in tags:
    for b in tags:
        n += 1
        c = compare_tags(a, b); e = (key(a) > key(b)) - (key(a) < key(b))
        if (c > 0) - (c < 0) != e: bad["cmp"] += 1
srt = sorted(tags, key=functools.cmp_to_key(compare_tags))
if srt != sorted(tags, key=key): bad["sort"] += 1
rng = random.Random(1)
for _ in range(20000):
    depth = rng.randint(1, 4); full = ["0"] + [str(rng.choice([0, 3, 9, 10, 11, 123])) for _ in range(depth)]
    chain = [".".join(full[:k]) for k in range(1, len(full) + 1)]
    sub = rng.sample(chain, rng.randint(1, len(chain))); sub += rng.choices(sub, k=rng.randint(0, 2)); rng.shuffle(sub)
    g = get_tag([Token(None, tag=t) for t in sub]); exp = max(sub, key=lambda t: len(t.split(".")))
    if g != exp: bad["get_tag"] += 1
    step = "/" + "/".join(rng.choice(["a", "b.c", "1.2", "x-scatter", "0"]) for _ in range(rng.randint(1, 3))); tag = rng.choice(chain)
    jn = posixpath.join(step, tag)
    if get_job_step_name(jn) != step or get_job_tag(jn) != tag: bad["jobname"] += 1
print("C33 pairs", n, dict(bad))

# C32
bad = collections.Counter(); m = 0; shown = collections.Counter()
names = ["f.txt", "a b", "per%cent", "a%41", "x%20y", "üñí", "q?x", "h#1", "plus+", "tr.", "-dash", "semi;colon", "d/e"]
for _ in range(20000):
    old = rng.choice(["/old/dir", "/old/dir/", "/o"]); new = rng.choice(["/new/base", "/n", "/new/base/"])
    def mkfile(depth=0):
        nm = rng.choice(names); path = posixpath.join(old.rstrip("/"), nm)
        v = {"class": rng.choice(["File", "Directory"])}
        mode = rng.choice(["path", "location", "both"])
        if mode in ("path", "both"): v["path"] = path
        if mode in ("location", "both"): v["location"] = "file://" + urllib.parse.quote(path)
        if rng.random() < 0.2 and depth < 2: v["secondaryFiles"] = [mkfile(depth + 1)]
        if v["class"] == "Directory" and rng.random() < 0.3 and depth < 2: v["listing"] = [mkfile(depth + 1)]
        return v
    val = rng.choice([mkfile(), [mkfile(), 3, "s"], {"r": mkfile(), "k": "http://ex.org/a%20b", "n": None}, {"class": "File", "location": "http://ex.org/old/dir/a"}])
    orig = copy.deepcopy(val); m += 1
    try:
        x = remap_token_value(posixpath, old, new, copy.deepcopy(val))
        y = remap_token_value(posixpath, new, old, copy.deepcopy(x))
    except Exception as e:
        bad["exc-" + type(e).__name__] += 1; continue
    if y != orig:
        # classify
        def walk(a, b, out):
            if isinstance(a, dict):
                for k in a:
                    if k in ("path", "location") and a[k] != b.get(k): out.append((k, a[k], b.get(k)))
                    elif isinstance(a[k], (dict, list)): walk(a[k], b[k], out)
            elif isinstance(a, list):
                for p, q in zip(a, b): walk(p, q, out)
        out = []; walk(orig, y, out)
        for (k, a, b) in out:
            if k == "path" and "%" in a: cl = "path-percent-decoded"
            elif k == "location" and urllib.parse.unquote(a) == urllib.parse.unquote(b): cl = "location-not-requoted"
            elif posixpath.normpath(urllib.parse.unquote(a).replace("file://", "")) == posixpath.normpath(urllib.parse.unquote(b).replace("file://", "")): cl = "normalisation-only"
            else: cl = "other"
            bad[f"{k}:{cl}"] += 1
            if shown[cl] < 2: shown[cl] += 1; print(cl, repr(a), "->", repr(b), "old", old, "new", new)
print("C32 values", m, dict(bad))
