import asyncio, sys, collections, random, tempfile, shutil, os
src = open("/var/tmp/vfprobe/c04.py").read().split("async def main():")[0]
exec(src)
from streamflow.core.workflow import Port as _Port
from streamflow.workflow.token import JobToken, IterationTerminationToken

PUTS = []  # (port obj, token)
_orig_put = _Port.put
def _put(self, token):
    PUTS.append((self, token)); return _orig_put(self, token)
_Port.put = _put

async def run_and_check(ops, outs, seed, root):
    PUTS.clear()
    Sched.rng = random.Random(seed)
    ctx = build_context({"database": {"type": "jitter", "config": {"connection": ":memory:"}}, "path": os.getcwd()})
    # (re-use builder from c04 by copy: simplified — call run_program but we need db before close) -> inline minimal: monkeypatch close
    holder = {}
    orig_close = ctx.database.__class__.close
    return ctx

async def main():
    # Reuse run_program but intercept database before it is closed
    import streamflow.persistence.sqlite as SQ
    captured = {}
    orig_close = SQ.SqliteDatabase.close
    async def close_capture(self):
        async with self.connection as db:
            async with db.execute("select dependee, depender from provenance") as c: captured["prov"] = [tuple(r) for r in await c.fetchall()]
            async with db.execute("select id, port, tag, type from token") as c: captured["tok"] = {r[0]: tuple(r) for r in await c.fetchall()}
            async with db.execute("select id, name from port") as c: captured["port"] = {r[0]: r[1] for r in await c.fetchall()}
        await orig_close(self)
    SQ.SqliteDatabase.close = close_capture
    root = tempfile.mkdtemp(dir="/var/tmp/vfprobe"); rng = random.Random(2); kinds = collections.Counter(); shown = collections.Counter(); ntok = 0; nprog = 0
    for p in range(int(sys.argv[1])):
        ops, den, outs = gen_program(rng)
        if not outs: continue
        PUTS.clear(); captured.clear()
        err, got, sts = await run_program(ops, outs, p, root); nprog += 1
        if err: kinds["runerr"] += 1; continue
        prov = collections.defaultdict(set)
        for a, b in captured["prov"]: prov[b].add(a)
        toks = captured["tok"]
        # index puts by port name
        by_port = collections.defaultdict(list)
        for port, t in PUTS: by_port[port.name].append(t)
        # wiring: step -> inputs/outputs from workflow (ports hold .workflow)
        wf = PUTS[0][0].workflow
        def pref(tag, d=1): return ".".join(tag.split(".")[:-d])
        for step in wf.steps.values():
            ins = {n: wf.ports[pn] for n, pn in step.input_ports.items()}
            for on, pn in step.output_ports.items():
                for t in by_port[pn]:
                    if isinstance(t, (TerminationToken, IterationTerminationToken)): continue
                    ntok += 1
                    if t.persistent_id is None or t.persistent_id not in toks: kinds["unpersisted:" + type(step).__name__] += 1; continue
                    if captured["port"].get(toks[t.persistent_id][1]) != pn: kinds["wrong-port"] += 1
                    got_dep = prov.get(t.persistent_id, set())
                    cname = type(step).__name__
                    def in_tokens(filter_fn, ports=None):
                        r = set()
                        for n, prt in ins.items():
                            if ports and n not in ports: continue
                            for x in by_port[prt.name]:
                                if not isinstance(x, TerminationToken) and x.persistent_id and filter_fn(n, x): r.add(x.persistent_id)
                        return r
                    if cname.startswith("Fn_"): exp = in_tokens(lambda n, x: x.tag == t.tag)
                    elif cname == "ScatterStep":
                        g = t.tag if on == "__size__" else pref(t.tag); exp = in_tokens(lambda n, x: x.tag == g)
                    elif cname == "GatherStep":
                        exp = in_tokens(lambda n, x: (n == "__size__" and x.tag == t.tag) or (n != "__size__" and pref(x.tag) == t.tag))
                    elif cname == "DeployStep": exp = set()
                    elif cname == "ScheduleStep": exp = in_tokens(lambda n, x: n.startswith("__connector__") or x.tag == t.tag)
                    elif cname == "ExecuteStep":
                        exp = in_tokens(lambda n, x: (n == "__job__" and isinstance(x, JobToken) and x.tag == t.tag) or (n != "__job__" and x.tag == t.tag))
                    else: kinds["unknown-step:" + cname] += 1; continue
                    if got_dep != exp:
                        k = "dep-mismatch:" + cname; kinds[k] += 1
                        if shown[k] < 2: shown[k] += 1; print(k, t.tag, "got", sorted(got_dep), "exp", sorted(exp), "step", step.name)
                    if any(d >= t.persistent_id for d in got_dep): kinds["order"] += 1
    print("programs", nprog, "tokens checked", ntok, dict(kinds)); shutil.rmtree(root)
asyncio.run(main())
