import json, os, random, subprocess, sys, tempfile, shutil, concurrent.futures as cf, collections
import yaml
ET_ADD = {"class": "ExpressionTool", "requirements": {"InlineJavascriptRequirement": {}}, "inputs": {"a": "int", "b": {"type": "int", "default": 10}}, "outputs": {"o": "int"}, "expression": "${return {'o': inputs.a + inputs.b};}"}
ET_ARR = {"class": "ExpressionTool", "requirements": {"InlineJavascriptRequirement": {}}, "inputs": {"n": "int"}, "outputs": {"o": "int[]"}, "expression": "${var r=[]; for (var i=0;i<inputs.n;i++) r.push(i*2); return {'o': r};}"}
ET_SUM = {"class": "ExpressionTool", "requirements": {"InlineJavascriptRequirement": {}}, "inputs": {"xs": {"type": {"type": "array", "items": ["null", "int"]}}}, "outputs": {"o": "int"}, "expression": "${var s=0; for (var i=0;i<inputs.xs.length;i++) s+= (inputs.xs[i]||0); return {'o': s};}"}
CLT_ECHO = {"class": "CommandLineTool", "baseCommand": ["python3", "-c", "import sys; print(' '.join(sys.argv[1:]))"], "inputs": {"a": {"type": "int", "inputBinding": {"position": 1}}, "s": {"type": "string", "default": "x", "inputBinding": {"position": 2, "prefix": "--s"}}}, "stdout": "out.txt", "outputs": {"o": {"type": "string", "outputBinding": {"glob": "out.txt", "loadContents": True, "outputEval": "$(self[0].contents.trim())"}}}, "requirements": {"InlineJavascriptRequirement": {}}}

def gen(rng):
    wf = {"cwlVersion": "v1.2", "class": "Workflow", "requirements": {"ScatterFeatureRequirement": {}, "MultipleInputFeatureRequirement": {}, "InlineJavascriptRequirement": {}, "StepInputExpressionRequirement": {}, "SubworkflowFeatureRequirement": {}},
          "inputs": {"i1": "int", "i2": "int", "arr": "int[]", "arr2": "int[]", "flag": "boolean"}, "outputs": {}, "steps": {}}
    job = {"i1": rng.randint(0, 12), "i2": rng.randint(0, 5), "arr": [rng.randint(0, 9) for _ in range(rng.choice([0, 1, 3, 11]))], "arr2": [rng.randint(0, 9) for _ in range(rng.choice([0, 2, 3]))], "flag": rng.random() < 0.5}
    ints = ["i1", "i2"]; arrs = ["arr", "arr2"]; 
    for k in range(rng.randint(1, 5)):
        name = f"s{k}"; kind = rng.choice(["add", "add_scatter", "add_scatter2", "arrgen", "sum", "when", "pick", "echo", "merge_sum"])
        if kind == "add":
            st = {"run": ET_ADD, "in": {"a": rng.choice(ints), "b": rng.choice(ints)}, "out": ["o"]}
            if rng.random() < 0.3: st["in"]["b"] = {"source": rng.choice(ints), "valueFrom": "$(self * 2 + inputs.a)"}
            ints.append(f"{name}/o")
        elif kind == "add_scatter":
            st = {"run": ET_ADD, "scatter": "a", "in": {"a": rng.choice(arrs), "b": rng.choice(ints)}, "out": ["o"]}; arrs.append(f"{name}/o")
        elif kind == "add_scatter2":
            m = rng.choice(["dotproduct", "flat_crossproduct", "nested_crossproduct"])
            a1 = rng.choice(arrs); a2 = a1 if m == "dotproduct" else rng.choice(arrs)
            st = {"run": ET_ADD, "scatter": ["a", "b"], "scatterMethod": m, "in": {"a": a1, "b": a2}, "out": ["o"]}
            if m != "nested_crossproduct": arrs.append(f"{name}/o")
            else: wf["outputs"][f"{name}_o"] = {"type": {"type": "array", "items": {"type": "array", "items": "int"}}, "outputSource": f"{name}/o"}
        elif kind == "arrgen":
            st = {"run": ET_ARR, "in": {"n": rng.choice(ints)}, "out": ["o"]}; arrs.append(f"{name}/o")
        elif kind == "sum":
            st = {"run": ET_SUM, "in": {"xs": rng.choice(arrs)}, "out": ["o"]}; ints.append(f"{name}/o")
        elif kind == "merge_sum":
            srcs = rng.sample(ints, min(len(ints), rng.randint(2, 3)))
            st = {"run": ET_SUM, "in": {"xs": {"source": srcs, "linkMerge": "merge_nested"}}, "out": ["o"]}; ints.append(f"{name}/o")
        elif kind == "when":
            st = {"run": ET_ADD, "when": rng.choice(["$(inputs.a > 3)", "$(inputs.flag)"]), "in": {"a": rng.choice(ints), "b": rng.choice(ints), "flag": "flag"}, "out": ["o"]}
            wf["outputs"][f"{name}_o"] = {"type": ["null", "int"], "outputSource": f"{name}/o"}
            # pickValue usage
            wf["outputs"][f"{name}_pv"] = {"type": "int", "outputSource": [f"{name}/o", rng.choice(["i1", "i2"])], "pickValue": "first_non_null"}
            wf["outputs"][f"{name}_all"] = {"type": "int[]", "outputSource": [f"{name}/o", "i1"], "pickValue": "all_non_null"}
        elif kind == "pick":
            continue
        elif kind == "echo":
            st = {"run": CLT_ECHO, "in": {"a": rng.choice(ints)}, "out": ["o"]}
            wf["outputs"][f"{name}_o"] = {"type": "string", "outputSource": f"{name}/o"}
        wf["steps"][name] = st
    for i, s in enumerate(ints[2:]): wf["outputs"][f"oi{i}"] = {"type": "int", "outputSource": s}
    for i, s in enumerate(arrs[2:]): wf["outputs"][f"oa{i}"] = {"type": "int[]", "outputSource": s}
    if not wf["outputs"]: wf["outputs"]["x"] = {"type": "int", "outputSource": "i1"}
    return wf, job

def run_one(i):
    rng = random.Random(i); wf, job = gen(rng)
    d = tempfile.mkdtemp(dir="/var/tmp/vfprobe")
    with open(f"{d}/w.cwl", "w") as f: yaml.safe_dump(wf, f)
    with open(f"{d}/j.yml", "w") as f: yaml.safe_dump(job, f)
    env = dict(os.environ, TMPDIR=d, HOME=d)
    r1 = subprocess.run(["/venv/bin/cwltool", "--quiet", "--outdir", f"{d}/ref", f"{d}/w.cwl", f"{d}/j.yml"], capture_output=True, text=True, env=env, timeout=300)
    code = "import sys; sys.path.insert(0,'/repo'); from streamflow.cwl.runner import main; sys.exit(main(sys.argv[1:]))"
    r2 = subprocess.run(["/venv/bin/python", "-c", code, "--quiet", "--outdir", f"{d}/sf", f"{d}/w.cwl", f"{d}/j.yml"], capture_output=True, text=True, env=env, timeout=300)
    def parse(r):
        if r.returncode != 0: return ("FAIL", r.returncode)
        try: return ("OK", json.loads(r.stdout))
        except Exception: return ("BADJSON", r.stdout[-200:])
    a, b = parse(r1), parse(r2)
    res = (i, a[0], b[0], a == b, None if a == b else (a[1] if a[0] != "FAIL" else r1.stderr[-300:], b[1] if b[0] != "FAIL" else r2.stderr[-600:]), list(wf["steps"].items()) if a != b else None)
    shutil.rmtree(d, ignore_errors=True)
    return res
if __name__ == "__main__":
    n = int(sys.argv[1]); kinds = collections.Counter(); shown = 0
    with cf.ThreadPoolExecutor(14) as ex:
        for r in ex.map(run_one, range(n)):
            kinds[(r[1], r[2], r[3])] += 1
            if not r[3] and shown < 4 and r[1] != "FAIL":
                shown += 1; print(r[0], r[1], r[2], "\n REF", json.dumps(r[4][0])[:400], "\n SF ", json.dumps(r[4][1])[:600], "\n steps", json.dumps(r[5])[:900])
    print({str(k): v for k, v in kinds.items()})
