import asyncio, itertools, random, sys, collections
sys.path.insert(0, "/repo")
from streamflow.core.workflow import Token
from streamflow.workflow.combinator import DotProductCombinator, CartesianProductCombinator
exec(open("c02.py").read().split("async def run")[0])  # reuse ref_dot/ref_cart helpers

def ref_nested(inner_kind, streams, inner_ports, outer_ports):
    # inner combos -> virtual port "I" whose tokens are (tag, combo); then outer dot with other ports
    if inner_kind == "cart":
        inner = ref_cart({p: streams[p] for p in inner_ports}, inner_ports)
        virt = [(tags[0], vals) for (tags, vals), n in inner.items() for _ in range(n)]
    else:
        inner = ref_dot({p: streams[p] for p in inner_ports})
        virt = [(tag, vals) for (tag, vals), n in inner.items() for _ in range(n)]
    s2 = {"I": virt}; s2.update({p: streams[p] for p in outer_ports})
    out = collections.Counter()
    for (tag, vals), n in ref_dot(s2).items():
        d = dict(vals); flat = dict(d.pop("I")); flat.update(d)
        out[(tag, tuple(sorted(flat.items())))] += n
    return out

async def run(fac, streams, order):
    c = fac(); out = collections.Counter()
    for p, i in order:
        tg, v = streams[p][i]
        async for schema in c.combine(p, Token(value=v, tag=tg)):
            tags = frozenset(s["token"].tag for s in schema.values())
            assert len(tags) == 1, tags
            out[(next(iter(tags)), tuple(sorted((k, s["token"].value) for k, s in schema.items())))] += 1
    return out

async def main():
    rng = random.Random(2); n = bad = od = 0
    for trial in range(3000):
        inner_kind = rng.choice(["cart", "dot"])
        base = rng.choice(["0", "0.3"])
        inner_ports = ["a", "b"]; outer_ports = rng.choice([["c"], ["c", "d"]])
        streams = {}
        for p in inner_ports:
            ks = rng.sample(range(12), rng.randint(0, 3))
            streams[p] = [(f"{base}.{k}", f"{p}@{k}") for k in ks]
        for p in outer_ports:
            streams[p] = [(base, f"{p}@{base}")] if rng.random() < 0.9 else []
        exp = ref_nested(inner_kind, streams, inner_ports, outer_ports)
        def fac():
            o = DotProductCombinator("o", None)
            i = (CartesianProductCombinator if inner_kind == "cart" else DotProductCombinator)("i", None)
            for p in inner_ports: i.add_item(p)
            o.add_combinator(i, i.get_items(recursive=True))
            for p in outer_ports: o.add_item(p)
            return o
        events = [(p, i) for p in streams for i in range(len(streams[p]))]
        res = set()
        for _ in range(6):
            rng.shuffle(events)
            got = await run(fac, streams, list(events)); n += 1
            res.add(frozenset(got.items()))
            if got != exp:
                bad += 1
                if bad <= 4: print("MISMATCH", inner_kind, streams, events, "\n got", dict(got), "\n exp", dict(exp))
        if len(res) > 1: od += 1
    print("runs", n, "mismatches", bad, "order-dependent", od)
asyncio.run(main())
