import asyncio, os, sys, random, collections, tempfile, shutil
sys.path.insert(0, "/repo")
src = open("/var/tmp/vfprobe/c10.py").read().split("ACTIVE =")[0]
exec(src)
from streamflow.core.deployment import FilterConfig
from streamflow.core.workflow import Token
async def main():
    root = tempfile.mkdtemp(dir="/var/tmp/vfprobe"); rng = random.Random(1); bad = collections.Counter(); n = 0
    ctx = build_context({"database": {"type": "default", "config": {"connection": ":memory:"}}, "path": os.getcwd()})
    deps = []
    for d in range(4):
        dc = DeploymentConfig(name=f"d{d}", type="vf-hw", config={"locations": {f"d{d}-l0": {"cores": 8.0, "memory": 1000.0, "disks": {}}}}, external=True, lazy=False, workdir=root)
        await ctx.deployment_manager.deploy(dc); deps.append(dc)
    for trial in range(int(sys.argv[1])):
        k = rng.randint(2, 4); order = rng.sample(deps, k)
        targets = [Target(deployment=dc, workdir=root) for dc in order]
        # matching filter: rules for a random subset of targets matching value "x"; others match "y"
        match = {dc.name: rng.random() < 0.6 for dc in order}
        if not any(match.values()): match[order[-1].name] = True
        fname = f"f{trial}"
        fc = FilterConfig(name=fname, type="matching", config={"filters": [{"target": dc.name, "job": [{"port": "p", "match": "x" if match[dc.name] else "y"}]} for dc in order]})
        use_filter = rng.random() < 0.7
        bc = BindingConfig(targets=targets, filters=[fc] if use_filter else [])
        jn = f"/s{trial}/0"; job = Job(jn, 1, {"p": Token("x")}, root, root, root)
        await ctx.scheduler.schedule(job, bc, Req(1.0, 1.0, {})); n += 1
        got = ctx.scheduler.get_allocation(jn).target.deployment.name
        exp = next(dc.name for dc in order if (match[dc.name] or not use_filter))
        if got != exp: bad["wrong-target" + ("-filtered" if use_filter else "-nofilter")] += 1
        await ctx.scheduler.notify_status(jn, Status.RUNNING); await ctx.scheduler.notify_status(jn, Status.COMPLETED)
    print("schedules", n, dict(bad)); await ctx.close(); shutil.rmtree(root)
asyncio.run(main())
