import asyncio, os, sys, random, itertools, collections
sys.path.insert(0, "/repo")
from streamflow.main import build_context
from streamflow.core.deployment import Connector, DeploymentConfig, WrapsConfig
from streamflow.core.config import Config
from streamflow.deployment.wrapper import ConnectorWrapper
from streamflow.deployment.connector import connector_classes
import logging; logging.getLogger("streamflow").setLevel(logging.CRITICAL)

LOG = []; CFG = {}
class Base:
    async def _do(self, what):
        LOG.append((what + "-call", self.deployment_name))
        for _ in range(CFG.get((what, self.deployment_name), 0)): await asyncio.sleep(0)
        if CFG.get(("fail-" + what, self.deployment_name)):
            LOG.append((what + "-fail", self.deployment_name)); raise RuntimeError("injected")
        LOG.append((what + "-done", self.deployment_name))
class FakeConn(Base, Connector):
    def __init__(self, deployment_name, config_dir, transferBufferSize=1): Connector.__init__(self, deployment_name, config_dir, transferBufferSize)
    async def deploy(self, external): await self._do("deploy")
    async def undeploy(self, external): await self._do("undeploy")
    async def get_available_locations(self, service=None): return {}
    @classmethod
    def get_schema(cls): return "{}"
    async def copy_local_to_remote(self,*a,**k): pass
    async def copy_remote_to_local(self,*a,**k): pass
    async def copy_remote_to_remote(self,*a,**k): pass
    async def run(self,*a,**k): return ("",0)
    async def get_shell(self,*a,**k): raise NotImplementedError
    async def get_stream_reader(self,*a,**k): raise NotImplementedError
    async def get_stream_writer(self,*a,**k): raise NotImplementedError
class FakeWrap(Base, ConnectorWrapper):
    def __init__(self, deployment_name, config_dir, connector, service, transferBufferSize=1):
        ConnectorWrapper.__init__(self, deployment_name, config_dir, connector, service, transferBufferSize)
    async def deploy(self, external): await self._do("deploy")
    async def undeploy(self, external): await self._do("undeploy")
    @classmethod
    def get_schema(cls): return "{}"
connector_classes["vf-fake"] = FakeConn; connector_classes["vf-wrap"] = FakeWrap
POL = Config(name="__DEFAULT__", type="data_locality", config={})

def check(log, wraps, req_log):
    state = collections.defaultdict(lambda: "down"); errs = []
    for i, (ev, d) in enumerate(log):
        if ev == "deploy-call":
            if state[d] != "down": errs.append(("double-deploy", d, i))
            state[d] = "deploying"
        elif ev == "deploy-done": state[d] = "up"
        elif ev == "deploy-fail": state[d] = "down"
        elif ev == "undeploy-call":
            if state[d] != "up": errs.append(("undeploy-not-up", d, state[d], i))
            for w, inner in wraps.items():
                if inner == d and state[w] in ("up", "deploying"): errs.append(("inner-undeployed-under-live-wrapper", d, w, i))
            state[d] = "undeploying"
        elif ev == "undeploy-done": state[d] = "down"
        elif ev[0] == "req-deploy-return":  # (('req-deploy-return', ok), d)
            if ev[1] and state[d] not in ("up",) : errs.append(("deploy-returned-before-up", d, state[d], i))
    return errs, dict(state)

async def scenario(reqs, delays, lazy, fail):
    LOG.clear(); CFG.clear(); CFG.update(delays)
    if fail: CFG[("fail-deploy", fail)] = True
    deployments = {"A": {"type": "vf-fake", "config": {}, "lazy": lazy.get("A", False), "scheduling_policy": POL},
                   "B": {"type": "vf-wrap", "config": {}, "lazy": lazy.get("B", False), "wraps": "A", "scheduling_policy": POL},
                   "C": {"type": "vf-wrap", "config": {}, "lazy": lazy.get("C", False), "wraps": "B", "scheduling_policy": POL}}
    ctx = build_context({"database": {"type": "default", "config": {"connection": ":memory:"}}, "path": os.getcwd(), "deployments": deployments})
    dm = ctx.deployment_manager
    def cfg(n):
        d = deployments[n]
        return DeploymentConfig(name=n, type=d["type"], config=dict(d["config"]), external=False, lazy=d["lazy"], wraps=(WrapsConfig(d["wraps"]) if "wraps" in d else None))
    async def req(kind, n):
        try:
            if kind == "deploy": await dm.deploy(cfg(n)); LOG.append((("req-deploy-return", not lazy.get(n, False)), n))
            elif kind == "undeploy": await dm.undeploy(n); LOG.append((("req-undeploy-return",), n))
            else: await dm.undeploy_all(); LOG.append((("req-undeploy-all-return",), "*"))
        except Exception as e:
            LOG.append((("req-exc", kind, type(e).__name__), n))
    tasks = [asyncio.create_task(req(k, n)) for k, n in reqs]
    done, pending = await asyncio.wait(tasks, timeout=2)
    hung = len(pending)
    for t in pending: t.cancel()
    log1 = list(LOG)
    await dm.undeploy_all()
    errs, state = check(LOG, {"B": "A", "C": "B"}, None)
    if hung: errs.append(("hung-requests", hung))
    leftover = [d for d, s in state.items() if s != "down"]
    if leftover: errs.append(("still-up-after-undeploy-all", leftover))
    await ctx.database.close()
    return errs, log1

async def main():
    rng = random.Random(5); kinds = collections.Counter(); shown = collections.Counter(); n = 0
    for trial in range(int(sys.argv[1])):
        k = rng.randint(1, 4)
        reqs = [(rng.choice(["deploy", "deploy", "undeploy", "undeploy_all"]), rng.choice("ABC")) for _ in range(k)]
        delays = {(w, d): rng.randint(0, 3) for w in ("deploy", "undeploy") for d in "ABC"}
        lazy = {d: rng.random() < 0.25 for d in "ABC"}
        fail = rng.choice([None, None, None, "A", "B"])
        errs, log = await scenario(reqs, delays, lazy, fail); n += 1
        for e in errs:
            kinds[e[0]] += 1
            if shown[e[0]] < 2:
                shown[e[0]] += 1; print(e, "reqs", reqs, "lazy", {d for d in lazy if lazy[d]}, "fail", fail, "\n   log", [(x[0] if isinstance(x[0], str) else x[0][0], x[1]) for x in LOG])
    print("scenarios", n, dict(kinds))
asyncio.run(main())
