import asyncio, os, random, sys, collections
sys.path.insert(0, "/repo")
from streamflow.main import build_context
from streamflow.core.deployment import ExecutionLocation
from streamflow.core.data import DataType, DataLocation
from streamflow.data import manager as M
from streamflow.deployment.utils import get_path_processor
from pathlib import Path

FIX = len(sys.argv) > 2 and sys.argv[2] == "fix"
if FIX:
    def put(self, path, data_location, recursive=False):
        path_processor = get_path_processor(data_location.location)
        node = self._filesystem; nodes = {}
        for i, token in enumerate(parts := Path(path).parts):
            if token not in node.children: node.children[token] = M._RemotePathNode()
            node = node.children[token]
            if recursive: nodes[path_processor.join(*parts[: i + 1])] = node
        if not recursive: nodes[path] = node
        relpath = data_location.relpath
        for node_path in reversed(nodes):
            node = nodes[node_path]
            location = data_location if node_path == path else DataLocation(location=data_location.location, path=node_path,
                relpath=(relpath if relpath and node_path.endswith(relpath) else path_processor.basename(node_path)), data_type=DataType.PRIMARY, available=True)
            if any(l.path == location.path and l.data_type != DataType.INVALID for l in node.locations.get(location.deployment, {}).get(location.name, [])):
                break
            node.locations.setdefault(location.deployment, {}).setdefault(location.name, []).append(location)
            node.valid_paths.setdefault(location.deployment, {}).setdefault(location.name, set()).add(location.path)
            relpath = path_processor.dirname(relpath)
        return data_location
    M._RemotePathMapper.put = put

def ancestors(p):
    parts = p.strip("/").split("/"); return ["/" + "/".join(parts[:k]) for k in range(1, len(parts))]
def at_or_beneath(d, p): return d == p or d.startswith(p.rstrip("/") + "/")

async def one(seed, ctx):
    rng = random.Random(seed)
    dm = M.DefaultDataManager(ctx)
    locs = [ExecutionLocation(name=f"l{i}", deployment=f"d{i%2}", local=False) for i in range(3)]
    key = lambda l: (l.deployment, l.name); byk = {key(l): l for l in locs}
    names = ["a", "b", "c"]
    clock = 0
    reg_time = {}      # (lk, path) -> last registration time
    inv_log = []       # (time, lk, path)
    related = collections.defaultdict(set)
    must = {}          # obligations: name -> (kind, data) alive until cancelled
    known = set(); hist = []
    def q(p, l=None, t=None):
        return {((d.deployment, d.name), d.path, d.data_type.name) for d in dm.get_data_locations(p, l.deployment if l else None, l.name if l else None, t)}
    def closure(p):
        seen = {p}; st = [p]
        while st:
            x = st.pop()
            for y in related[x]:
                if y not in seen: seen.add(y); st.append(y)
        return seen
    def last_inv_hit(lk, path):
        return max([t for (t, k, p) in inv_log if k == lk and at_or_beneath(path, p)], default=-1)
    def check():
        for p in known:
            for l in [None] + locs:
                for (lk, path, typ) in q(p, l):
                    if l and lk != key(l): return ("S1-filter", p)
                    if typ == "INVALID": return ("S1-invalid", p)
                    if reg_time.get((lk, path), -1) <= last_inv_hit(lk, path): return ("S2-resurrected", p, lk, path)
                    if path not in closure(p): return ("S3-phantom", p, lk, path)
        for name, (kind, a, b) in list(must.items()):
            if kind == "C1":
                if not any((r[0], r[1]) == a for r in q(a[1], byk[a[0]])): return ("C1", a)
            else:
                if not any((r[0], r[1]) == b for r in q(a[1])): return ("C2-src-sees-dst", a, b)
                if not any((r[0], r[1]) == a for r in q(b[1])): return ("C2-dst-sees-src", a, b)
        return None
    def do_register(loc, path, typ):
        nonlocal clock
        clock += 1
        dm.register_path(loc, path, path, typ)
        for a in ancestors(path) + [path]:
            reg_time[(key(loc), a)] = clock; known.add(a); must[("C1", key(loc), a)] = ("C1", (key(loc), a), None)
    for step in range(rng.randint(3, 16)):
        op = rng.choice(["reg", "reg", "reg", "inv", "rel", "rel"])
        loc = rng.choice(locs)
        path = "/" + "/".join(rng.choice(names) for _ in range(rng.randint(1, 3)))
        if op == "reg":
            typ = rng.choice([DataType.PRIMARY, DataType.PRIMARY, DataType.SYMBOLIC_LINK])
            do_register(loc, path, typ); hist.append(("reg", loc.name, path, typ.name))
        elif op == "inv":
            if path not in known: continue
            before = {p: {r for r in q(p) if r[0] != key(loc)} for p in known}
            clock += 1; dm.invalidate_location(loc, path); inv_log.append((clock, key(loc), path)); hist.append(("inv", loc.name, path))
            after = {p: {r for r in q(p) if r[0] != key(loc)} for p in known}
            if before != after: return (("I1-other-location-touched",), hist)
            for p in known:
                if at_or_beneath(p, path) and any(r[1] == p for r in q(p, loc)): return (("I2-still-there", p), hist)
            # cancel obligations touched (directly, by ancestor, or via relation closure) on this location
            touched = set()
            for p in known:
                if at_or_beneath(p, path): touched |= closure(p)
            touched2 = {x for x in known for t in touched if at_or_beneath(x, t)}
            for name, (kind, a, b) in list(must.items()):
                for rec in (a, b):
                    if rec and rec[0] == key(loc) and (rec[1] in touched2 or any(at_or_beneath(rec[1], t) for t in touched2)):
                        must.pop(name, None)
        elif op == "rel":
            cands = [a for (k, a, _) in must.values() if k == "C1"]
            if not cands: continue
            s = rng.choice(cands); dloc = rng.choice(locs)
            do_register(dloc, path, DataType.PRIMARY)
            sdl = next((d for d in dm.get_data_locations(s[1], s[0][0], s[0][1]) if d.path == s[1]), None)
            ddl = next((d for d in dm.get_data_locations(path, dloc.deployment, dloc.name) if d.path == path), None)
            if sdl is None or ddl is None:
                r = check(); return ((r or ("C1-pre",)), hist)
            dm.register_relation(sdl, ddl); hist.append(("rel", s, (key(dloc), path)))
            related[s[1]].add(path); related[path].add(s[1])
            must[("C2", s, (key(dloc), path))] = ("C2", s, (key(dloc), path))
        r = check()
        if r: return (r, hist)
    return None

async def drive():
    ctx = build_context({"database": {"type": "default", "config": {"connection": ":memory:"}}, "path": os.getcwd()})
    kinds = collections.Counter(); shown = collections.Counter()
    for s in range(int(sys.argv[1])):
        r = await one(s, ctx)
        if r:
            k = r[0][0]; kinds[k] += 1
            if shown[k] < 2: shown[k] += 1; print(s, r)
    print("FIX" if FIX else "ORIG", dict(kinds))
    await ctx.close()
asyncio.run(drive())
