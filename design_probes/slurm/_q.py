#!/venv/bin/python
import sys, os, json, fcntl, subprocess, time
S = os.environ.get("VF_SLURM_STATE", "/var/tmp/vfprobe/slurm/state"); os.makedirs(S, exist_ok=True)
cmd = os.path.basename(sys.argv[0]); args = sys.argv[1:]
lock = open(os.path.join(S, "lock"), "a+"); fcntl.flock(lock, fcntl.LOCK_EX)
dbf = os.path.join(S, "db.json"); db = json.load(open(dbf)) if os.path.exists(dbf) else {"next": 100, "jobs": {}, "log": [], "clock": 0}
def log(*a): db["clock"] += 1; db["log"].append([db["clock"], *a])
def advance():
    for jid, j in db["jobs"].items():
        if j["state"] == "PENDING":
            j["ticks"] -= 1
            if j["ticks"] <= 0:
                r = subprocess.run(["sh", os.path.join(S, jid + ".sh")], capture_output=True, cwd=j.get("chdir") or None)
                open(os.path.join(S, jid + ".out"), "wb").write(r.stdout + r.stderr); j["rc"] = r.returncode; j["state"] = "DONE"; log("finish", jid)
if cmd == "sbatch":
    script = sys.stdin.read(); db["next"] += 1; jid = str(db["next"])
    open(os.path.join(S, jid + ".sh"), "w").write(script)
    chdir = None
    for i, a in enumerate(args):
        if a == "--chdir": chdir = args[i + 1]
    ticks = int(os.environ.get("VF_TICKS_" + jid, os.environ.get("VF_TICKS", "2")))
    import random; ticks = random.Random(int(jid) * 7 + int(os.environ.get("VF_SEED", "0"))).randint(1, 5)
    db["jobs"][jid] = {"state": "PENDING", "ticks": ticks, "chdir": chdir}; log("submit", jid, ticks); print(jid)
elif cmd == "squeue":
    log("squeue", " ".join(args)); advance()
    ids = []
    for i, a in enumerate(args):
        if a == "-j": ids = args[i + 1].split(",")
    for jid in ids:
        if db["jobs"].get(jid, {}).get("state") == "PENDING": print(jid)
elif cmd == "scontrol":
    jid = args[-1]; j = db["jobs"][jid]; print(f"JobId={jid} JobState=COMPLETED ExitCode={j.get('rc', 0)}:0 StdOut={os.path.join(S, jid + '.out')}")
elif cmd == "scancel":
    for jid in " ".join(args).split():
        if jid in db["jobs"]:
            was = db["jobs"][jid]["state"]; db["jobs"][jid]["state"] = "CANCELLED" if was == "PENDING" else was; log("cancel", jid, was)
json.dump(db, open(dbf, "w"))
