import asyncio, os, sys, json, shutil, random, collections
sys.path.insert(0, "/repo")
os.environ["PATH"] = "/var/tmp/vfprobe/slurm/bin:" + os.environ["PATH"]
from streamflow.main import build_context
from streamflow.core.deployment import DeploymentConfig, WrapsConfig
import logging; logging.getLogger("streamflow").setLevel(logging.CRITICAL)
async def scenario(seed):
    S = "/var/tmp/vfprobe/slurm/state"; shutil.rmtree(S, ignore_errors=True); os.environ["VF_SEED"] = str(seed); rng = random.Random(seed)
    ctx = build_context({"database": {"type": "default", "config": {"connection": ":memory:"}}, "path": os.getcwd(), "deployments": {}})
    wd = "/var/tmp/vfprobe/slurm/w"; os.makedirs(wd, exist_ok=True)
    await ctx.deployment_manager.deploy(DeploymentConfig(name="loc", type="local", config={}, external=True, lazy=False, workdir=wd))
    await ctx.deployment_manager.deploy(DeploymentConfig(name="sl", type="slurm", config={"pollingInterval": 0.01, "maxConcurrentJobs": 8}, external=False, lazy=False, wraps=WrapsConfig(deployment="loc")))
    conn = ctx.deployment_manager.get_connector("sl"); loc = next(iter((await conn.get_available_locations()).values())).location
    n = rng.randint(1, 6); returns = {}
    async def job(i):
        await asyncio.sleep(rng.random() * 0.05)
        r = await conn.run(loc, ["echo", f"job{i}; exit {i}"], workdir=wd, capture_output=True, job_name=f"/s/{i}")
        db = json.load(open(S + "/db.json")); returns[i] = (r, db["clock"], [l for l in db["log"] if l[1] == "finish"])
    tasks = [asyncio.create_task(job(i)) for i in range(n)]
    undeploy_at = rng.choice([None, None, 0.05, 0.1])
    errs = []
    if undeploy_at is None:
        await asyncio.gather(*tasks)
        db = json.load(open(S + "/db.json"))
        # map job index -> id via script content
        ids = {}
        for jid in db["jobs"]:
            txt = open(f"{S}/{jid}.sh").read()
            for i in range(n):
                if f"job{i};" in txt: ids[i] = jid
        for i, (r, clock, fins) in returns.items():
            if r != (f"job{i}", i): errs.append(("wrong-result", i, r))
            if ids[i] not in [f[2] for f in fins]: errs.append(("returned-before-finish", i))
        await ctx.deployment_manager.undeploy_all()
    else:
        await asyncio.sleep(undeploy_at)
        db0 = json.load(open(S + "/db.json")) if os.path.exists(S + "/db.json") else {"jobs": {}}
        await conn.undeploy(False)
        db = json.load(open(S + "/db.json")) if os.path.exists(S + "/db.json") else {"jobs": {}, "log": []}
        cancelled = {l[2] for l in db["log"] if l[1] == "cancel"}
        done_before = {l[2] for l in db["log"] if l[1] == "finish"}
        for l in db["log"]:
            if l[1] == "cancel" and l[3] != "PENDING": errs.append(("cancelled-finished-job", l[2], l[3]))
        for t in tasks: t.cancel()
        await asyncio.gather(*tasks, return_exceptions=True)
        await ctx.deployment_manager.undeploy_all()
    await ctx.close()
    return errs, n
async def main():
    kinds = collections.Counter(); total = 0
    for s in range(int(sys.argv[1])):
        errs, n = await scenario(s); total += n
        for e in errs:
            kinds[e[0]] += 1
            if kinds[e[0]] < 3: print(s, e)
    print("jobs", total, dict(kinds))
asyncio.run(main())
